import os
import sys

from runner import H

sys.path.insert(0, os.path.join(os.path.dirname(os.path.dirname(os.path.abspath(__file__))), "mir2smt"))
import driver  # noqa: E402

F_PACK = ["apollo_compiler::parser::TaggedFileId::pack", "TaggedFileId::tag", "TaggedFileId::file_id"]
F_NEW = ["apollo_compiler::parser::FileId::new", "FileId::reset", "FileId::const_new"]

SPEC = {
    "id": "C31",
    "package": "apollo-compiler",
    "inject": [("apollo-compiler", "src/parser.rs", "compiler/c31.rs", "verif_c31")],
    "unsafe_checks": True,
    "exhaustive": True,
    "timeout": {"quick": 600, "thorough": 1200},
    "harnesses": [
        H("c31_pack_roundtrip", functions=F_PACK, domain="every id in [1, 2^63) x tag in {false,true}",
          bound="full domain (no loop)"),
        H("c31_pack_injective", functions=F_PACK, domain="every pair of (tag,id), id in [1, 2^63)",
          bound="full domain (no loop)"),
        H("c31_reserved_ids", functions=F_NEW, domain="constants BUILT_IN, NONE, INITIAL, TAG, ID_MASK: reserved ids distinct, untagged, below INITIAL", bound="n/a"),
        H("c31_new_sequential", functions=F_NEW, domain="every reachable counter value [3, 2^63+2^32] (wrapped ones included), one call: id not reserved, no tag bit",
          bound="unwind 3 (at most one reset + retry)"),
        H("c31_new_twice_distinct", functions=F_NEW, domain="every counter value in [3, 2^63-1), two calls",
          bound="unwind 3"),
        H("c31_reset", functions=F_NEW, domain="every counter value, reset then two calls: distinct and not reserved", bound="unwind 3"),
        H("c31_twin_must_fail", functions=F_PACK, domain="vacuity twin", bound="-", expect="twin"),
    ],
    "pre": driver.c31_pre,
    "replay_smt": lambda rep: driver.replay_saved(rep),
    "engine": "Kani 0.68 / CBMC 6.11 (cadical) + MIR->SMT (z3 4.8.12, cvc5 1.0.3)",
    "stubs": [],
    "assumptions": [
        "Kani sequentialises atomics: the Kani harnesses decide the sequential semantics of FileId::new only; "
        "interleavings are decided by engine E2 (MIR -> SMT) in the same check",
        "E2: sequential consistency for the single shared word NEXT (orderings in the source are AcqRel/Release on one location; "
        "weaker orderings add no behaviours for read-modify-write operations on a single location: stated, not checked)",
        "E2: interleaving bounds T threads x k calls: (2,2) quick; (2,2),(3,2),(2,3) thorough; every atomic call found in the MIR of "
        "FileId::new / FileId::reset is one step, an unknown atomic primitive or unmodelled call makes the run inconclusive",
        "E2: NonZero::new_unchecked / get / Option::unwrap / NonZero::new are modelled by their documented semantics",
        "counter value 0 is excluded (no history reaches it: the counter starts at 3 and restarts at 3)",
        "ids handed out before the 63-bit counter wraps (the property's own exclusion)",
    ],
    "outside": [
        "parsing / validating / introspecting a shared schema from many threads (needs Schema + real threads)",
        "lazily initialised statics (OnceLock/LazyLock are std; trusted)",
    ],
}
