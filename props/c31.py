from runner import H

F_PACK = ["apollo_compiler::parser::TaggedFileId::pack", "TaggedFileId::tag", "TaggedFileId::file_id"]
F_NEW = ["apollo_compiler::parser::FileId::new", "FileId::reset", "FileId::const_new"]

SPEC = {
    "id": "C31",
    "package": "apollo-compiler",
    "inject": [("apollo-compiler", "src/parser.rs", "compiler/c31.rs", "verif_c31")],
    "unsafe_checks": True,
    "exhaustive": True,
    "timeout": {"quick": 600, "thorough": 1200},
    "harnesses": [
        H("c31_pack_roundtrip", functions=F_PACK, domain="every id in [1, 2^63) x tag in {false,true}",
          bound="full domain (no loop)"),
        H("c31_pack_injective", functions=F_PACK, domain="every pair of (tag,id), id in [1, 2^63)",
          bound="full domain (no loop)"),
        H("c31_reserved_ids", functions=F_NEW, domain="constants BUILT_IN, NONE, INITIAL, TAG, ID_MASK", bound="n/a"),
        H("c31_new_sequential", functions=F_NEW, domain="every counter value 1..=u64::MAX, one call",
          bound="unwind 3 (at most one reset + retry)"),
        H("c31_new_twice_distinct", functions=F_NEW, domain="every counter value in [3, 2^63-1), two calls",
          bound="unwind 3"),
        H("c31_reset", functions=F_NEW, domain="every counter value, reset then one call", bound="no loop iteration beyond 1"),
        H("c31_twin_must_fail", functions=F_PACK, domain="vacuity twin", bound="-", expect="twin"),
    ],
    "stubs": [],
    "assumptions": [
        "Kani sequentialises atomics: the Kani harnesses decide the sequential semantics of FileId::new only; "
        "interleavings are decided by engine E2 (MIR -> SMT) in the same check",
        "counter value 0 is excluded (no history reaches it: the counter starts at 3 and restarts at 3)",
        "ids handed out before the 63-bit counter wraps (the property's own exclusion)",
    ],
    "outside": [
        "parsing / validating / introspecting a shared schema from many threads (needs Schema + real threads)",
        "lazily initialised statics (OnceLock/LazyLock are std; trusted)",
    ],
}
