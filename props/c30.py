from runner import H

F_N = ["apollo_compiler::Name::{from_arc_unchecked,new_unchecked,new_static_unchecked,with_location,location,as_str,len,as_static_str,as_arc,to_cloned_arc}",
       "<Name as Clone>::clone", "<Name as Drop>::drop", "<Arc<str> as From<Name>>::from", "<Name as PartialEq/Ord/Hash>",
       "parser::TaggedFileId::{pack,tag,file_id}"]
F_D = ["apollo_compiler::Node::{new,new_parsed,new_opt_location,new_str,new_str_parsed,location,is_built_in,same_location,ptr_eq,make_mut,get_mut}",
       "<Node as Clone/Deref/PartialEq/Hash>"]
NAME, NODE = 0, 1

SPEC = {
    "id": "C30",
    "package": "apollo-compiler",
    "inject": [("apollo-compiler", "src/name.rs", "compiler/c30_name.rs", "verif_c30_name"),
               ("apollo-compiler", "src/node.rs", "compiler/c30_node.rs", "verif_c30_node")],
    "unsafe_checks": True,
    "timeout": {"quick": 900, "thorough": 3000},
    "jobs": 10,
    "harnesses": [
        H("c30_name_heap_history_k2", mod=NAME, functions=F_N, tiers=("quick",), heavy=True,
          domain="every history of 2 operations from {clone into slot b, drop b, with_location(any span), to_cloned_arc+drop, into Arc<str>, swap} on a heap name with a 2-byte symbolic text", bound="k = 2"),
        H("c30_name_heap_history_k3", mod=NAME, functions=F_N, heavy=True, domain="same, 3 operations", bound="k = 3"),
        H("c30_name_heap_history_k4", mod=NAME, functions=F_N, tiers=("thorough",), heavy=True, domain="same, 4 operations", bound="k = 4"),
        H("c30_name_heap_history_k6", mod=NAME, functions=F_N, tiers=("thorough",), heavy=True, optional=True, domain="same, 6 operations", bound="k = 6"),
        H("c30_name_creation_paths", mod=NAME, functions=F_N, heavy=True, domain="borrowed / static / Arc creation, clone, drop, conversion back, any first byte", bound="fixed scenario, symbolic text byte and span"),
        H("c30_name_location_roundtrip", mod=NAME, functions=F_N, heavy=True, domain="heap or static name x any two spans (any file id incl. NONE, any start offset)", bound="full domain of spans"),
        H("c30_name_eq_ord_hash", mod=NAME, functions=F_N, heavy=True, domain="two names with symbolic second byte, heap/static, with/without location", bound="2-byte texts"),
        H("c30_name_twin_must_fail", mod=NAME, functions=F_N, expect="twin", heavy=True, domain="vacuity twin", bound="-"),
        H("c30_node_history_k3", mod=NODE, functions=F_D, heavy=True, domain="every history of 3 operations from {clone, drop clone, make_mut(a), make_mut(b), get_mut(a)} on Node<u32> with any value/location", bound="k = 3"),
        H("c30_node_history_k5", mod=NODE, functions=F_D, tiers=("thorough",), heavy=True, domain="same, 5 operations", bound="k = 5"),
        H("c30_node_history_k8", mod=NODE, functions=F_D, tiers=("thorough",), heavy=True, optional=True, domain="same, 8 operations", bound="k = 8"),
        H("c30_node_eq_hash_location", mod=NODE, functions=F_D, heavy=True, domain="Node<u32>/Node<u64>/Node<str> with any values and spans", bound="fixed scenario"),
        H("c30_node_twin_must_fail", mod=NODE, functions=F_D, expect="twin", heavy=True, domain="vacuity twin", bound="-"),
    ],
    "stubs": ["alloc::fmt::format -> empty String"],
    "assumptions": [
        "single-threaded histories only (Kani has no thread model); std::sync::Arc and triomphe::Arc themselves are trusted",
        "Kani's memory-safety checks are ON for these harnesses: dereference of freed/dangling/out-of-bounds pointers and double frees fail the run",
        "leaks are detected through the strong count of a witness Arc<str> kept by the harness (== 1 + live names after every step, == 1 at the end)",
    ],
    "outside": ["multi-threaded interleavings of these operations", "histories longer than the stated k", "Node<T> for other T (one harness per instantiation: u32, u64, str)"],
}
