import json
import os

from runner import H

_SHARDS = json.load(open(os.path.join(os.path.dirname(os.path.dirname(os.path.abspath(__file__))), "harness", "compiler", "c09_prefix.json")))
F_S = ["apollo_compiler::ast::serialize::serialize_string_value (quoted path)", "<Serialize<Value> as Display>::fmt", "State::write"]

SPEC = {
    "id": "C09",
    "package": "apollo-compiler",
    "inject": [("apollo-compiler", "src/ast/serialize.rs", "compiler/c09.rs", "verif_c09")],
    "support": ["parser/ref_lexer.rs", "compiler/c09_prefix.rs"],
    "unsafe_checks": False,
    "timeout": {"quick": 1200, "thorough": 3000},
    "jobs": 4,
    "harnesses": [
        H(name, sub="prefixes", functions=F_S, tiers=("quick", "thorough") if quick else ("thorough",), heavy=True, timeout=2400, optional=not quick,
          domain="Value::String(%r ++ [b]).serialize().no_indent(), b = every byte < 0x80: output is one valid StringValue token and decodes to the input" % pre,
          bound="string = %d concrete bytes + 1 symbolic byte" % len(pre.encode()))
        for name, pre, quick in _SHARDS
    ] + [H("c09_twin_must_fail", functions=F_S, expect="twin", heavy=True, domain="vacuity twin", bound="-")],
    "stubs": ["alloc::fmt::format -> empty String"],
    "assumptions": [
        "serialisation WITHOUT indentation (newlines disabled), which always takes the quoted-string path; "
        "'parses back' = the reference lexer accepts the output as exactly one StringValue token and the spec's StringValue semantics "
        "(harness/parser/ref_lexer.rs, validated natively against the real lexer; C06 decides that the real unescape_string equals those semantics) "
        "decode it to the original string",
        "strings of the form listed-prefix + one byte < 0x80 (control characters, quote, backslash, tab, LF, CR included)",
    ],
    "outside": [
        "the block-string form (serialisation with indentation of strings that contain a newline, and descriptions): can_be_block_string / "
        "serialize_block_string split symbolic text into lines and need a BlockStringValue oracle plus unescape_block_string (memchr crate)",
        "nesting positions other than a bare value; non-ASCII last characters; longer strings",
    ],
}
