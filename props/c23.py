from runner import H

F_P = ["apollo_compiler::coordinate::<SchemaCoordinate as FromStr>::from_str", "<TypeCoordinate as FromStr>::from_str",
       "<TypeAttributeCoordinate as FromStr>::from_str", "<FieldArgumentCoordinate as FromStr>::from_str",
       "<DirectiveCoordinate as FromStr>::from_str", "<DirectiveArgumentCoordinate as FromStr>::from_str",
       "Name::try_from(&str)", "Name::is_valid_syntax"]
F_D = ["<SchemaCoordinate as Display>::fmt and the five per-kind Display impls", "<Name as Display>::fmt"]
ALPHA = "alphabet {a Z _ 0 . ( ) : @ space 0xC3 0xA9}, valid UTF-8 only"

SPEC = {
    "id": "C23",
    "package": "apollo-compiler",
    "inject": [("apollo-compiler", "src/coordinate.rs", "compiler/c23.rs", "verif_c23")],
    "unsafe_checks": False,
    "timeout": {"quick": 900, "thorough": 3000},
    "jobs": 14,
    "harnesses": [
        H("c23_kind_type_n6", functions=F_P, tiers=("quick",), heavy=True, domain="TypeCoordinate::from_str on every string <= 6 bytes over " + ALPHA, bound="len <= 6"),
        H("c23_kind_type_attribute_n6", functions=F_P, tiers=("quick",), heavy=True, domain="TypeAttributeCoordinate::from_str on every string <= 6 bytes over the alphabet", bound="len <= 6"),
        H("c23_kind_directive_n6", functions=F_P, tiers=("quick",), heavy=True, domain="DirectiveCoordinate::from_str on every string <= 6 bytes over the alphabet", bound="len <= 6"),
        H("c23_kind_directive_argument_n7", functions=F_P, tiers=("quick",), heavy=True, domain="DirectiveArgumentCoordinate::from_str on every string of 5..7 bytes over the alphabet", bound="len <= 7"),
        H("c23_kind_field_argument_n8", functions=F_P, tiers=("quick",), heavy=True, domain="FieldArgumentCoordinate::from_str on every string of 6..8 bytes over the alphabet", bound="len <= 8"),
        H("c23_parse_n3", functions=F_P, tiers=("quick",), heavy=True, domain="SchemaCoordinate::from_str (five-way dispatch, variant and name components) on every string <= 3 bytes over the alphabet", bound="len <= 3"),
        H("c23_print_of_parse_n3", functions=F_P + F_D, tiers=("quick",), heavy=True, domain="every string <= 3 bytes over the alphabet that parses: Display gives it back", bound="len <= 3"),
        H("c23_parse_of_print_type", functions=F_P + F_D, heavy=True, domain="TypeCoordinate over names {a, Z0}: parse(print(c)) == c", bound="names <= 2 bytes"),
        H("c23_parse_of_print_type_attribute", functions=F_P + F_D, heavy=True, domain="TypeAttributeCoordinate over names {a, Z0}", bound="names <= 2 bytes"),
        H("c23_parse_of_print_directive", functions=F_P + F_D, heavy=True, domain="DirectiveCoordinate over names {a, Z0}", bound="names <= 2 bytes"),
        H("c23_parse_of_print_directive_argument", functions=F_P + F_D, heavy=True, domain="DirectiveArgumentCoordinate over names {a, Z0}", bound="names <= 2 bytes"),
        H("c23_parse_of_print_field_argument", functions=F_P + F_D, heavy=True, domain="FieldArgumentCoordinate over names {a, Z0}", bound="names <= 2 bytes"),
        H("c23_kind_type_n8", functions=F_P, tiers=("thorough",), heavy=True, domain="TypeCoordinate::from_str, every string <= 8 bytes", bound="len <= 8"),
        H("c23_kind_type_attribute_n8", functions=F_P, tiers=("thorough",), heavy=True, domain="TypeAttributeCoordinate::from_str, every string <= 8 bytes", bound="len <= 8"),
        H("c23_kind_directive_n8", functions=F_P, tiers=("thorough",), heavy=True, domain="DirectiveCoordinate::from_str, every string <= 8 bytes", bound="len <= 8"),
        H("c23_kind_directive_argument_n9", functions=F_P, tiers=("thorough",), heavy=True, domain="DirectiveArgumentCoordinate::from_str, every string of 5..9 bytes", bound="len <= 9"),
        H("c23_kind_field_argument_n10", functions=F_P, tiers=("thorough",), heavy=True, domain="FieldArgumentCoordinate::from_str, every string of 6..10 bytes", bound="len <= 10"),
        H("c23_parse_n4", functions=F_P, tiers=("thorough",), heavy=True, domain="SchemaCoordinate::from_str on every string <= 4 bytes", bound="len <= 4"),
        H("c23_parse_n5", functions=F_P, tiers=("thorough",), heavy=True, optional=True, domain="SchemaCoordinate::from_str on every string <= 5 bytes", bound="len <= 5"),
        H("c23_parse_field_argument_n8", functions=F_P, tiers=("thorough",), heavy=True, optional=True,
          domain="SchemaCoordinate::from_str on every string of 7..8 bytes that ends in ':)'", bound="len <= 8"),
        H("c23_print_of_parse_n5", functions=F_P + F_D, tiers=("thorough",), heavy=True, optional=True, domain="every string <= 5 bytes that parses: Display gives it back", bound="len <= 5"),
        H("c23_twin_must_fail", functions=F_P, expect="twin", heavy=True, domain="vacuity twin", bound="-"),
    ],
    "stubs": ["alloc::fmt::format -> empty String (error messages are not the subject)",
              "core::slice::memchr::memchr_aligned -> assert!(haystack.len() < 16) (the word-at-a-time path of memchr is dead for "
              "haystacks shorter than 16 bytes; the stub checks that instead of assuming it)"],
    "assumptions": [
        "reference = byte-level matcher for the five coordinate forms over the Name grammar (harness/compiler/c23.rs)",
        "strings range over a 12-byte alphabet containing every character class the parser distinguishes",
        "Display output is collected through a 16-byte fmt::Write sink (no String growth in the formula)",
    ],
    "outside": ["SchemaCoordinate::lookup and friends (need a Schema: IndexMap/ahash out of reach)", "strings longer than the stated bounds"],
}
