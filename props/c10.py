from runner import H

F_N = ["apollo_compiler::Name::is_valid_syntax", "Name::is_name_start", "Name::is_name_continue"]
F_C = ["Name::new", "Name::new_static", "Name::check_valid_syntax", "Name::new_unchecked", "Name::from_arc_unchecked",
       "Name::new_static_unchecked", "TryFrom<&str|String|&String|Arc<str>> for Name", "<Name as Deserialize>::deserialize (visit_str)"]
F_I = ["apollo_compiler::ast::IntValue::valid_syntax", "<IntValue as Deserialize>::deserialize (visit_str)"]
F_F = ["apollo_compiler::ast::FloatValue::valid_syntax", "FloatValue::valid_fractional_syntax", "<FloatValue as Deserialize>::deserialize (visit_str)"]
F_32 = ["<IntValue as From<i32>>::from", "IntValue::try_to_i32", "IntValue::valid_syntax"]
ALPHA = "alphabet {0 1 9 - + . e E a _ x space \" \\n 0xC3 0xA9}, valid UTF-8 only"

NAME, NUM = 0, 1
SPEC = {
    "id": "C10",
    "package": "apollo-compiler",
    "inject": [("apollo-compiler", "src/name.rs", "compiler/c10_name.rs", "verif_c10_name"),
               ("apollo-compiler", "src/ast/impls.rs", "compiler/c10_num.rs", "verif_c10_num")],
    "unsafe_checks": False,
    "timeout": {"quick": 900, "thorough": 1500},
    "jobs": 12,
    "harnesses": [
        H("c10_name_syntax_n4", mod=NAME, functions=F_N, tiers=("quick",), heavy=True,
          domain="every byte string of <= 4 bytes that std::str::from_utf8 accepts", bound="len <= 4, unwind 7"),
        H("c10_name_syntax_n6", mod=NAME, functions=F_N, heavy=True,
          domain="every byte string of <= 6 bytes that std::str::from_utf8 accepts", bound="len <= 6, unwind 10"),
        H("c10_name_syntax_n8", mod=NAME, functions=F_N, tiers=("thorough",), heavy=True,
          domain="every byte string of <= 8 bytes that std::str::from_utf8 accepts", bound="len <= 8, unwind 12"),
        H("c10_name_new", mod=NAME, functions=F_C, heavy=True, domain="every valid-UTF-8 string <= 3 bytes over ASCII + U+00E9", bound="len <= 3"),
        H("c10_name_new_static", mod=NAME, functions=F_C, heavy=True, domain="every valid-UTF-8 string <= 3 bytes over ASCII + U+00E9", bound="len <= 3"),
        H("c10_name_try_from_str", mod=NAME, functions=F_C, heavy=True, domain="every valid-UTF-8 string <= 3 bytes over ASCII + U+00E9", bound="len <= 3"),
        H("c10_name_try_from_string", mod=NAME, functions=F_C, heavy=True, domain="every valid-UTF-8 string <= 3 bytes over ASCII + U+00E9", bound="len <= 3"),
        H("c10_name_try_from_string_ref", mod=NAME, functions=F_C, heavy=True, domain="every valid-UTF-8 string <= 3 bytes over ASCII + U+00E9", bound="len <= 3"),
        H("c10_name_try_from_arc", mod=NAME, functions=F_C, heavy=True, domain="every valid-UTF-8 string <= 3 bytes over ASCII + U+00E9", bound="len <= 3"),
        H("c10_name_deserialize", mod=NAME, functions=F_C, heavy=True, domain="every valid-UTF-8 string <= 3 bytes through serde StrDeserializer", bound="len <= 3"),
        H("c10_name_twin_must_fail", mod=NAME, functions=F_N, expect="twin", heavy=True, domain="vacuity twin", bound="-"),
        H("c10_int_syntax_n5", mod=NUM, functions=F_I, heavy=True, domain="every string <= 5 bytes over " + ALPHA, bound="len <= 5, unwind 8"),
        H("c10_int_syntax_n7", mod=NUM, functions=F_I, tiers=("thorough",), heavy=True, domain="every string <= 7 bytes over " + ALPHA, bound="len <= 7, unwind 10"),
        H("c10_float_syntax_n4", mod=NUM, functions=F_F, tiers=("quick",), heavy=True, domain="every string <= 4 bytes over " + ALPHA, bound="len <= 4, unwind 7"),
        H("c10_float_syntax_n5", mod=NUM, functions=F_F, tiers=("thorough",), heavy=True, domain="every string <= 5 bytes over " + ALPHA, bound="len <= 5, unwind 8"),
        H("c10_float_syntax_n6", mod=NUM, functions=F_F, tiers=("thorough",), heavy=True, optional=True, timeout=1500, domain="every string <= 6 bytes over " + ALPHA, bound="len <= 6, unwind 9"),
        H("c10_float_empty_exponent", mod=NUM, functions=F_F, expect="finding", kf="C10_EMPTY_EXPONENT", heavy=True,
          signature="empty exponent accepted", domain="strings <= 4 bytes ending in [eE][+-]?", bound="len <= 4"),
        H("c10_int_deserialize_n3", mod=NUM, functions=F_I, heavy=True, domain="every string <= 3 bytes over the alphabet through serde StrDeserializer", bound="len <= 3"),
        H("c10_float_deserialize_n3", mod=NUM, functions=F_F, heavy=True, domain="every string <= 3 bytes over the alphabet through serde StrDeserializer", bound="len <= 3"),
        H("c10_i32_roundtrip_edges", mod=NUM, functions=F_32, heavy=True,
          domain="every i32 in [MIN, MIN+4096] u [-4096, 4096] u [MAX-4096, MAX]", bound="unwind 13 (<= 11 characters)"),
        H("c10_i32_extremes", mod=NUM, functions=F_32, heavy=True, domain="i32::MIN, i32::MIN+1, -1, 0, 1, i32::MAX", bound="six values"),
        H("c10_i32_roundtrip_all", mod=NUM, functions=F_32, tiers=("thorough",), heavy=True, optional=True, timeout=1500,
          domain="every i32", bound="unwind 13 (<= 11 characters)"),
        H("c10_num_twin_must_fail", mod=NUM, functions=F_I, expect="twin", heavy=True, domain="vacuity twin", bound="-"),
    ],
    "stubs": ["alloc::fmt::format -> empty String (error messages are not the subject)",
              "core::unicode::unicode_data::{alphabetic, n}::lookup -> their exact values on the constructor harnesses' domain (ASCII plus U+00E9): "
              "unchanged code never calls them; a constructor that starts using Unicode classes is then decided instead of ending in an unwinding failure"],
    "assumptions": [
        "reference = byte-level matchers for the Name / IntValue / FloatValue lexical grammars (October 2021) in harness/compiler/c10_*.rs",
        "numeric-literal strings range over a 16-byte alphabet that contains every character class the two functions distinguish "
        "(digits 0/1/9, sign, dot, e/E, a letter, underscore, x, space, quote, newline, a 2-byte UTF-8 character)",
        "UTF-8 validity is established by the real std::str::from_utf8 inside the harness",
    ],
    "outside": [
        "FloatValue::from(f64) and try_to_f64 (float<->decimal conversion: big-integer loops over floating point; not attempted)",
        "every type reference prints to text that parses back (needs the parser on symbolic multi-token input)",
        "strings longer than the stated bounds",
    ],
}
