from runner import H

F_P = ["apollo_parser::Parser::{new, token_limit, recursion_limit, parse, parse_selection_set, parse_type}",
       "parser::{peek, peek_token, next_token, pop, bump, eat, skip_ignored, push_ignored, err, err_and_pop, expect, limit_err, push_err, start_node, checkpoint_node, peek_while}",
       "grammar::document::document", "grammar::selection::{field_set, selection_set, selection}", "grammar::ty::{ty, parse}",
       "SyntaxTreeBuilder::{token, start_node, finish_node, wrap_node, checkpoint, finish_*}", "NodeGuard::drop", "Checkpoint::wrap_node",
       "Lexer (whole) on the same inputs"]
F_L = ["<apollo_parser::Lexer as Iterator>::next", "Cursor::advance", "Cursor::eof"]
PARSER, LEXER, CURSOR = 0, 1, 2

SPEC = {
    "id": "C01",
    "crates": ("apollo-parser",),
    "package": "apollo-parser",
    "inject": [("apollo-parser", "src/parser/mod.rs", "parser/parser.rs", "verif_parser"),
               ("apollo-parser", "src/lexer/mod.rs", "parser/lexer.rs", "verif_lexer"),
               ("apollo-parser", "src/lexer/cursor.rs", "parser/cursor_access.rs", "pub(crate) verif_cursor")],
    "support": ["parser/ref_lexer.rs", "parser/lexer_prefix.rs"],
    "unsafe_checks": False,
    # Kani's C model of __rust_dealloc reports size/validity failures when the Parser's vectors are dropped at the end of
    # these concrete runs; native replay never confirms them, and memory-safety checks are not claimed for these harnesses
    "ignore_failed": [r"rust_dealloc must be called on an object whose allocated size matches its layout",
                      r"^free argument (must be NULL or valid pointer|must be dynamic object|has offset zero)$", r"^double free$",
                      r"^free called for (new\[\] object|stack-allocated object)$"],
    "timeout": {"quick": 900, "thorough": 3000},
    "jobs": 10,
    "harnesses": [
        H("c03_first_item_1byte", mod=LEXER, functions=F_L, heavy=True, domain="lexer: every 1-byte input x every token limit: no panic / overflow / out-of-bounds slice, terminates (unwinding assertions)", bound="1 byte"),
        H("c03_first_item_2byte", mod=LEXER, functions=F_L, heavy=True, domain="lexer: every 2-byte character x every token limit", bound="1 character"),
        H("c03_first_item_3byte", mod=LEXER, functions=F_L, heavy=True, domain="lexer: every 3-byte character x every token limit", bound="1 character"),
        H("c03_first_item_4byte", mod=LEXER, functions=F_L, heavy=True, domain="lexer: every 4-byte character x every token limit", bound="1 character"),
        H("c03_after_last_char", mod=LEXER, functions=F_L, heavy=True, domain="lexer: step after the last character from any consistent state", bound="compositional step"),
        H("c03_empty_input_all_limits", mod=LEXER, functions=F_L, heavy=True, domain="lexer: the empty input x every token limit", bound="0 bytes"),
        H("c01_type_empty", mod=PARSER, functions=F_P, heavy=True, domain="Parser::parse_type(\"\") under the rowan contract (concrete run: regression witness of the fixed no-root panic)", bound="concrete input"),
        H("c01_type_leading_space", mod=PARSER, functions=F_P, heavy=True, domain="Parser::parse_type(\" Int\") (concrete run)", bound="concrete input"),
        H("c01_type_bang", mod=PARSER, functions=F_P, heavy=True, domain="Parser::parse_type(\"!\") (concrete run)", bound="concrete input"),
        H("c03_twin_must_fail", mod=LEXER, functions=F_L, expect="twin", heavy=True, domain="vacuity twin", bound="-"),
    ],
    "stubs": [
        "alloc::fmt::format -> empty String",
        "rowan::GreenNodeBuilder::{token, start_node, start_node_at, checkpoint, finish_node, finish} -> contract shadow that mirrors rowan's "
        "children/parents stacks and asserts rowan's own preconditions (finish_node needs an open node; a checkpoint must not be beyond the "
        "children nor before the current parent's first child; finish needs exactly one root element that is a finished node); "
        "rowan itself is the trusted base and counterexamples are replayed against the real rowan",
    ],
    "assumptions": [
        "panics checked: explicit panics/expect/unwrap/unreachable, arithmetic overflow, slice and index bounds, the debug assertions in peek_while, "
        "the rowan preconditions of the stub; termination = CBMC unwinding assertions",
        "LEXER: every input of at most one character (1-4 bytes) and every token limit, decided symbolically",
        "PARSER entry points: MEASURED to have no feasible symbolic dimension (one symbolic byte, a symbolic token limit or a symbolic recursion "
        "limit on concrete text all exceed 15 min: after the first data-dependent branch the lexer cursor is a merged symbolic value and every "
        "later token re-enters the lexer state machine). Only concrete runs go through; three of them (parse_type on \"\", \" Int\", \"!\") are kept as "
        "regression witnesses of the repaired no-root panic (rowan contract + no panic + lossless text on that path); they are not solver coverage "
        "of the input space. Failures of Kani's C allocator model (__rust_dealloc size/validity) on these runs are ignored: native replay never "
        "confirms them and memory-safety checks are not claimed here",
    ],
    "outside": [
        "the parser entry points on anything but the three concrete witness inputs; lexer inputs of two or more characters; deep nesting; stack overflow (CBMC has no stack-size model)",
        "the compiler-level entry points (Document/Schema/ExecutableDocument/Type/FieldSet::parse need DiagnosticList/SourceMap: IndexMap)",
    ],
}
