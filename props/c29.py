from runner import H


F_A = ["apollo_compiler::ast::Type::is_assignable_to"]
F_V = ["apollo_compiler::validation::variable::is_variable_usage_allowed", "ast::Type::is_assignable_to",
       "ast::Type::nullable", "ast::Type::is_non_null"]
F_I = ["apollo_compiler::validation::interface::is_valid_implementation_field_type"]
F_H = ["ast::Type::{is_non_null,is_list,is_named,nullable,non_null,item_type,inner_named_type}"]

SPEC = {
    "id": "C29",
    "package": "apollo-compiler",
    "inject": [("apollo-compiler", "src/validation/variable.rs", "compiler/c29.rs", "verif_c29")],
    "unsafe_checks": False,
    "timeout": {"quick": 900, "thorough": 3000},
    "jobs": 12,
    "harnesses": [
        H("c29_assignable_d2", functions=F_A, heavy=True,
          domain="all pairs of type refs, nesting <= 2, names {A,B} (shapes symbolic, one formula)", bound="depth 2, unwind 5"),
        H("c29_assignable_d3", functions=F_A, tiers=("thorough",), heavy=True, timeout=3000,
          domain="all pairs of type refs, nesting <= 3, names {A,B,C} (shapes symbolic, one formula)", bound="depth 3, unwind 6"),
        H("c29_usage_var_named", functions=F_V, heavy=True,
          domain="variable type T x every location type with nesting <= 1 (6 shapes, forked) x names {A,B} x variable default in {absent, null, Boolean, Enum, [], {}, $v} x location default in {absent, present}",
          bound="nesting <= 1"),
        H("c29_usage_var_named_nn", functions=F_V, heavy=True,
          domain="variable type T! x every location type with nesting <= 1 (6 shapes, forked) x names {A,B} x variable default in {absent, null, Boolean, Enum, [], {}, $v} x location default in {absent, present}",
          bound="nesting <= 1"),
        H("c29_usage_var_list", functions=F_V, heavy=True,
          domain="variable type [T] / [T!]... outer nullable, inner nullable x every location type with nesting <= 1 (6 shapes, forked) x names {A,B} x variable default in {absent, null, Boolean, Enum, [], {}, $v} x location default in {absent, present}",
          bound="nesting <= 1"),
        H("c29_usage_var_list_nn", functions=F_V, heavy=True,
          domain="variable type [T]! x every location type with nesting <= 1 (6 shapes, forked) x names {A,B} x variable default in {absent, null, Boolean, Enum, [], {}, $v} x location default in {absent, present}",
          bound="nesting <= 1"),
        H("c29_usage_var_list_of_nn", functions=F_V, heavy=True,
          domain="variable type [T!] x every location type with nesting <= 1 (6 shapes, forked) x names {A,B} x variable default in {absent, null, Boolean, Enum, [], {}, $v} x location default in {absent, present}",
          bound="nesting <= 1"),
        H("c29_usage_var_list_nn_of_nn", functions=F_V, heavy=True,
          domain="variable type [T!]! x every location type with nesting <= 1 (6 shapes, forked) x names {A,B} x variable default in {absent, null, Boolean, Enum, [], {}, $v} x location default in {absent, present}",
          bound="nesting <= 1"),
        H("c29_usage_var_l2_m0", functions=F_V, tiers=("thorough",), heavy=True,
          domain="variable [[T]] x every location type with nesting <= 1", bound="nesting 2 on one side, <= 1 on the other"),
        H("c29_usage_var_l2_m1", functions=F_V, tiers=("thorough",), heavy=True,
          domain="variable [[T]]! x every location type with nesting <= 1", bound="nesting 2 on one side, <= 1 on the other"),
        H("c29_usage_var_l2_m3", functions=F_V, tiers=("thorough",), heavy=True,
          domain="variable [[T]!]! x every location type with nesting <= 1", bound="nesting 2 on one side, <= 1 on the other"),
        H("c29_usage_var_l2_m7", functions=F_V, tiers=("thorough",), heavy=True,
          domain="variable [[T!]!]! x every location type with nesting <= 1", bound="nesting 2 on one side, <= 1 on the other"),
        H("c29_usage_loc_l2_m0", functions=F_V, tiers=("thorough",), heavy=True,
          domain="location [[T]] x every variable type with nesting <= 1", bound="nesting 2 on one side, <= 1 on the other"),
        H("c29_usage_loc_l2_m1", functions=F_V, tiers=("thorough",), heavy=True, optional=True,
          domain="location [[T]]! x every variable type with nesting <= 1", bound="nesting 2 on one side, <= 1 on the other"),
        H("c29_usage_loc_l2_m5", functions=F_V, tiers=("thorough",), heavy=True, optional=True,
          domain="location [[T!]]! x every variable type with nesting <= 1", bound="nesting 2 on one side, <= 1 on the other"),
        H("c29_usage_loc_l2_m7", functions=F_V, tiers=("thorough",), heavy=True, optional=True,
          domain="location [[T!]!]! x every variable type with nesting <= 1", bound="nesting 2 on one side, <= 1 on the other"),
        H("c29_variable_usage_null_default", functions=F_V, expect="finding", kf="C29_NULL_DEFAULT", heavy=True,
          signature="null variable default must not license",
          domain="variable default = null, nullable named variable type, non-null named location, no location default",
          bound="nesting 0"),
        H("c29_impl_field_d2", functions=F_I, heavy=True,
          domain="all (interface field type, implementation field type) nesting <= 2 over {A,B} x every subtype relation on 3 names (9 symbolic booleans)",
          bound="depth 2, unwind 5"),
        H("c29_type_helpers", functions=F_H, heavy=True, domain="all type refs nesting <= 2 over {A,B}", bound="depth 2, unwind 5"),
        H("c29_twin_must_fail", functions=F_A, expect="twin", heavy=True, domain="vacuity twin (wrong reference)", bound="depth 2"),
    ],
    "stubs": [
        "alloc::fmt::format -> empty String (messages are not the subject)",
        "ahash::RandomState::new -> RandomState::with_seeds(1,2,3,4) (only to build an empty Schema value)",
        "<ast::Type as Clone>::clone -> bounded structural copy for nesting <= 2 (variable-usage harnesses only; derive(Clone) is trusted; "
        "deeper nesting hits a checked unreachable!)",
        "apollo_compiler::Schema::is_subtype -> arbitrary but fixed relation: table of 9 kani::any() booleans indexed by the two names "
        "(the real one needs IndexMap lookups, out of reach; its own correctness is outside the claim)",
    ],
    "assumptions": [
        "reference = the spec algorithms AreTypesCompatible / IsVariableUsageAllowed / IsValidImplementationFieldType transcribed in harness/compiler/c29.rs",
        "nesting depth bound as stated per harness; deeper nesting is outside (both functions recurse structurally with no depth-dependent case: an argument, not a solver result)",
        "inputs are mem::forget-ed at the end of each harness (drop glue of Box<Type>/Node is not the subject)",
    ],
    "outside": [
        "that validation calls these predicates at every usage site (needs Schema/ExecutableDocument)",
        "Schema::is_subtype itself (IndexMap)",
    ],
}
