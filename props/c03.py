import json
import os

from runner import H

_PREFIXES = json.load(open(os.path.join(os.path.dirname(os.path.dirname(os.path.abspath(__file__))), "harness", "parser", "lexer_prefix.json")))

F_CLS = ["apollo_parser::lexer::lookup::punctuation_kind", "lookup::is_namestart", "lexer::is_whitespace_assimilated",
         "lexer::is_name_continue", "lexer::is_line_terminator", "lexer::is_escaped_char"]
F_LEX = ["apollo_parser::Lexer::new", "Lexer::with_limit", "<Lexer as Iterator>::next", "Cursor::advance", "Cursor::eof",
         "Cursor::done", "Cursor::bump", "Cursor::current_str", "Cursor::prev_str", "Cursor::eatc", "LimitTracker::check_and_increment"]

SPEC = {
    "id": "C03",
    "crates": ("apollo-parser",),
    "package": "apollo-parser",
    "inject": [("apollo-parser", "src/lexer/mod.rs", "parser/lexer.rs", "verif_lexer"),
               ("apollo-parser", "src/lexer/cursor.rs", "parser/cursor_access.rs", "pub(crate) verif_cursor")],
    "support": ["parser/ref_lexer.rs", "parser/lexer_prefix.rs"],
    "unsafe_checks": False,
    "cursor_access": True,
    "timeout": {"quick": 900, "thorough": 3000},
    "jobs": 6,
    "exhaustive": False,
    "harnesses": [
        H("c03_char_classes", functions=F_CLS, domain="every Unicode scalar value (0..=0x10FFFF minus surrogates)", bound="full domain, no loop"),
        H("c03_first_item_1byte", functions=F_LEX, heavy=True, domain="every 1-byte input x every token limit (usize)", bound="input = 1 ASCII character"),
        H("c03_first_item_2byte", functions=F_LEX, heavy=True, domain="every 2-byte character (U+0080..U+07FF) x every token limit", bound="input = 1 character"),
        H("c03_first_item_3byte", functions=F_LEX, heavy=True, domain="every 3-byte character (U+0800..U+FFFF minus surrogates) x every token limit", bound="input = 1 character"),
        H("c03_first_item_4byte", functions=F_LEX, heavy=True, domain="every 4-byte character (U+10000..U+10FFFF) x every token limit", bound="input = 1 character"),
        H("c03_after_last_char", functions=F_LEX, heavy=True, domain="every lexer state with nothing pending and an exhausted character iterator (index, offset, limit tracker arbitrary) over every one-character source", bound="compositional step (B)"),
        H("c03_empty_input_all_limits", functions=F_LEX, heavy=True, domain="the empty input x every token limit", bound="input = 0 bytes"),
    ] + [
        H(name, sub="prefix", functions=F_LEX, tiers=("quick", "thorough") if [name, pre] in _PREFIXES["quick"] else ("thorough",), heavy=True, timeout=3000,
          domain="lexer vs reference lexer (maximal munch, lookahead restrictions, string/escape/block-string rules) on %r ++ [b], b = every ASCII SourceCharacter (solver)" % pre,
          bound="input = %d concrete bytes + 1 symbolic byte" % len(pre.encode())) for name, pre in _PREFIXES["thorough"]
    ] + [
        H("c03_twin_must_fail", functions=F_LEX, expect="twin", heavy=True, domain="vacuity twin", bound="-"),
    ],
    "stubs": ["alloc::fmt::format -> empty String (error messages are not the subject; error data and indices stay real)",
              "core::unicode::unicode_data::{n, alphabetic}::lookup -> under-approximation that is exact on a handful of known characters "
              "(c03_char_classes only; unchanged code never calls them)"],
    "assumptions": [
        "reference = the October 2021 lexical grammar's character classes and, for a one-character input, the token/error the grammar "
        "assigns to that character followed by EOF (harness/parser/lexer.rs); for the prefix harnesses a reference lexer "
        "(harness/parser/ref_lexer.rs: maximal munch, number lookahead, escapes, \\uXXXX with the documented surrogate rejection, block strings), "
        "itself validated natively by tools/refcheck against the real lexer on 7.4 M short ASCII inputs and the repository's lexer corpus",
        "prefix harnesses: the prefix is concrete (enumerated list), the last byte ranges over every ASCII SourceCharacter (tab, LF, CR, 0x20..0x7E); "
        "other control characters are outside the compared domain",
        "symbolic dimension: ONE character (any scalar value), or ONE last ASCII byte after a concrete prefix; every further symbolic byte costs ~10 min of CBMC",
    ],
    "outside": ["inputs that are neither a single character nor a listed prefix + one ASCII byte; in particular a non-ASCII second character and three or more free characters"],
}
