from runner import H

F_CLS = ["apollo_parser::lexer::lookup::punctuation_kind", "lookup::is_namestart", "lexer::is_whitespace_assimilated",
         "lexer::is_name_continue", "lexer::is_line_terminator", "lexer::is_escaped_char"]
F_LEX = ["apollo_parser::Lexer::new", "Lexer::with_limit", "<Lexer as Iterator>::next", "Cursor::advance", "Cursor::eof",
         "Cursor::done", "Cursor::bump", "Cursor::current_str", "Cursor::prev_str", "Cursor::eatc", "LimitTracker::check_and_increment"]

SPEC = {
    "id": "C03",
    "crates": ("apollo-parser",),
    "package": "apollo-parser",
    "inject": [("apollo-parser", "src/lexer/mod.rs", "parser/lexer.rs", "verif_lexer"),
               ("apollo-parser", "src/lexer/cursor.rs", "parser/cursor_access.rs", "pub(crate) verif_cursor")],
    "unsafe_checks": False,
    "cursor_access": True,
    "timeout": {"quick": 900, "thorough": 3000},
    "jobs": 8,
    "exhaustive": False,
    "harnesses": [
        H("c03_char_classes", functions=F_CLS, domain="every Unicode scalar value (0..=0x10FFFF minus surrogates)", bound="full domain, no loop"),
        H("c03_first_item_1byte", functions=F_LEX, heavy=True, domain="every 1-byte input x every token limit (usize)", bound="input = 1 ASCII character"),
        H("c03_first_item_2byte", functions=F_LEX, heavy=True, domain="every 2-byte character (U+0080..U+07FF) x every token limit", bound="input = 1 character"),
        H("c03_first_item_3byte", functions=F_LEX, heavy=True, domain="every 3-byte character (U+0800..U+FFFF minus surrogates) x every token limit", bound="input = 1 character"),
        H("c03_first_item_4byte", functions=F_LEX, heavy=True, domain="every 4-byte character (U+10000..U+10FFFF) x every token limit", bound="input = 1 character"),
        H("c03_after_last_char", functions=F_LEX, heavy=True, domain="every lexer state with nothing pending and an exhausted character iterator (index, offset, limit tracker arbitrary) over every one-character source", bound="compositional step (B)"),
        H("c03_empty_input_all_limits", functions=F_LEX, heavy=True, domain="the empty input x every token limit", bound="input = 0 bytes"),
        H("c03_twin_must_fail", functions=F_LEX, expect="twin", heavy=True, domain="vacuity twin", bound="-"),
    ],
    "stubs": ["alloc::fmt::format -> empty String (error messages are not the subject; error data and indices stay real)"],
    "assumptions": [
        "reference = the October 2021 lexical grammar's character classes and, for a one-character input, the token/error the grammar "
        "assigns to that character followed by EOF (harness/parser/lexer.rs)",
        "inputs of at most ONE character: every further symbolic byte costs ~10 min of CBMC (584 s measured for 2 ASCII bytes), "
        "so escapes, block strings, exponents, `...` and every other multi-character token are OUTSIDE this check",
    ],
    "outside": ["all inputs of two or more characters: maximal munch, number lookahead, string escapes, block strings, comments with content, spread"],
}
