import os
import sys

from runner import H

sys.path.insert(0, os.path.join(os.path.dirname(os.path.dirname(os.path.abspath(__file__))), "mir2smt"))
import driver  # noqa: E402

F_T = ["apollo_parser::LimitTracker::check_and_increment", "LimitTracker::decrement", "LimitTracker::new"]
F_LEX = ["<apollo_parser::Lexer as Iterator>::next (limit gate)", "Lexer::with_limit", "Cursor::advance", "Error::limit"]
LEXER, LIMIT = 0, 1

SPEC = {
    "id": "C04",
    "crates": ("apollo-parser",),
    "package": "apollo-parser",
    "inject": [("apollo-parser", "src/lexer/mod.rs", "parser/lexer.rs", "verif_lexer"),
               ("apollo-parser", "src/limit.rs", "parser/limit.rs", "verif_limit"),
               ("apollo-parser", "src/lexer/cursor.rs", "parser/cursor_access.rs", "pub(crate) verif_cursor")],
    "support": ["parser/ref_lexer.rs", "parser/lexer_prefix.rs"],
    "unsafe_checks": False,
    "cursor_access": True,
    "exhaustive": True,
    "pre": driver.c04_pre,
    "engine": "Kani 0.68 / CBMC 6.11 (cadical) + MIR->SMT (z3 4.8.12, cvc5 1.0.3)",
    "timeout": {"quick": 900, "thorough": 3000},
    "jobs": 8,
    "harnesses": [
        H("c04_tracker_check_and_increment", mod=LIMIT, functions=F_T, domain="every (current, high, limit) with current <= high, current < usize::MAX", bound="full domain"),
        H("c04_tracker_decrement_inverse", mod=LIMIT, functions=F_T, domain="every (current, high, limit) with current <= high, current < usize::MAX", bound="full domain"),
        H("c04_tracker_new", mod=LIMIT, functions=F_T, domain="every limit", bound="full domain"),
        H("c04_tracker_nesting_history", mod=LIMIT, functions=F_T, domain="every limit x nesting depth <= 5: enter until refused, then leave", bound="depth <= 5"),
        H("c04_twin_must_fail", mod=LIMIT, functions=F_T, expect="twin", domain="vacuity twin (off-by-one reference)", bound="-"),
        H("c03_first_item_1byte", mod=LEXER, functions=F_LEX, heavy=True, domain="every 1-byte input x every token limit: at most `limit` items, limit error iff the unlimited stream (2 items) is longer, nothing after it, high = min(2, limit+1)", bound="input = 1 ASCII character"),
        H("c03_after_last_char", mod=LEXER, functions=F_LEX, heavy=True, domain="every lexer state after the last character (limit tracker arbitrary): Eof or the limit error, then nothing", bound="compositional step (B)"),
        H("c03_empty_input_all_limits", mod=LEXER, functions=F_LEX, heavy=True, domain="the empty input x every token limit", bound="input = 0 bytes"),
        H("c03_first_item_3byte", mod=LEXER, functions=F_LEX, tiers=("thorough",), heavy=True, domain="every 3-byte character x every token limit", bound="input = 1 character"),
    ],
    "stubs": ["alloc::fmt::format -> empty String"],
    "assumptions": [
        "E2: the MIR bodies of LimitTracker::check_and_increment (with decrement inlined) and decrement are executed symbolically into "
        "64-bit bit-vector terms (overflow checks on) and the negated property is sent to z3 and cvc5: a second, independent decision "
        "of the same full-domain claim",
        "LimitTracker is decided on its full domain (3 x 64-bit words); the representation invariant current <= high is assumed "
        "(it is established by new() and preserved by both operations: checked by the same harnesses)",
        "lexer gate: inputs of at most one character (see C03 for why); the token limit is a fully symbolic usize",
    ],
    "outside": [
        "the parser-level statements (limit error iff nesting depth exceeds r on selection sets / values / list types; balance on deep paths; "
        "no error after the first limit error; tree text is a prefix of the input): they need multi-token parser input, see C01 for the parser reach",
        "apollo_compiler::parser::Parser::{recursion_reached, tokens_reached} copy (DiagnosticList / SourceMap need IndexMap)",
    ],
}
