import json
import os

from runner import H

_SHARDS = json.load(open(os.path.join(os.path.dirname(os.path.dirname(os.path.abspath(__file__))), "harness", "parser", "strings_prefix.json")))

F_U = ["apollo_parser::cst::node_ext::unescape_string"]
_BODIES = [("c06_body_plain", ""), ("c06_body_after_letter", "a"), ("c06_body_escape", "\\"), ("c06_body_letter_escape", "a\\"),
           ("c06_body_escape_then_char", "\\\\"), ("c06_body_unicode_ascii", "\\u004"), ("c06_body_unicode_2byte", "\\u00e"),
           ("c06_body_unicode_3byte", "\\u20A"), ("c06_body_unicode_below_surrogates", "\\uD7F"), ("c06_body_unicode_then_char", "\\u0041"),
           ("c06_body_two_escapes", "\\n\\")]

SPEC = {
    "id": "C06",
    "crates": ("apollo-parser",),
    "package": "apollo-parser",
    "inject": [("apollo-parser", "src/cst/node_ext.rs", "parser/strings.rs", "verif_strings")],
    "support": ["parser/ref_lexer.rs", "parser/strings_prefix.rs"],
    "unsafe_checks": False,
    "native_sweep": "verif_native_sweep_c06",
    "timeout": {"quick": 900, "thorough": 1800},
    "jobs": 12,
    "harnesses": [
        H(name, functions=F_U, heavy=True,
          domain="unescape_string on every lexically valid quoted-string body %r ++ [b], b = every ASCII SourceCharacter (validity decided by the reference lexer)" % pre,
          bound="body = %d concrete bytes + 1 symbolic byte" % len(pre)) for name, pre in _BODIES
    ] + [
        H(name, sub="prefixes", functions=F_U, tiers=("quick", "thorough") if i < 3 else ("thorough",), heavy=True,
          domain="unescape_string on every valid body prefix ++ [b] for the %d prefixes %r (solver picks prefix and last byte)" % (len(items), items),
          bound="bodies of <= %d bytes: concrete prefix + 1 symbolic byte" % (max(len(x.encode()) for x in items) + 1))
        for i, (name, items) in enumerate(_SHARDS)
    ] + [H("c06_twin_must_fail", functions=F_U, expect="twin", heavy=True, domain="vacuity twin", bound="-")],
    "stubs": ["alloc::fmt::format -> empty String"],
    "assumptions": [
        "reference = the spec's StringValue static semantics transcribed over bytes into a fixed buffer (harness/parser/strings.rs); "
        "lexical validity of the body = the reference lexer of C03 (validated natively against the real lexer)",
        "bodies of the form listed-prefix + one ASCII byte only",
    ],
    "outside": [
        "block strings (BlockStringValue: unescape_block_string goes through the memchr crate's runtime-dispatched SIMD search, and its line "
        "splitting over symbolic text is the symbolic-length pattern that does not finish)",
        "bodies not of the listed shapes; non-ASCII last characters",
        "that the compiler stores these values in arguments, defaults and descriptions (ast/from_cst.rs needs the parser)",
    ],
}
