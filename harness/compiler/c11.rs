// C11 (offset -> line/column) — child module of apollo_compiler::parser.
//
// For every listed source text (concrete; enumerated) and EVERY byte offset (symbolic; decided by the solver):
//   SourceFile::get_line_column(offset)
//     = None                                                  when offset > text.len()
//     = Some(line, column) otherwise, where
//         line   = 1 + number of GraphQL LineTerminators (\n, \r\n, \r) that end before the offset
//         column = 1 + number of Unicode scalar values between the start of that line and the offset
//   SourceFile::get_line_column_range(a..b) = the two positions above, None when either is out of bounds.
// Texts contain the separators that are NOT GraphQL line terminators (vertical tab, form feed, U+0085, U+2028,
// U+2029) and 2-, 3- and 4-byte characters before the position on the same line.
#![allow(dead_code)]
use super::*;

// generated at staging time from the staged `pub struct SourceFile { .. }`: builds one from a String
#[path = "c11_mk.rs"]
mod mk;

fn fmt_stub(_args: std::fmt::Arguments<'_>) -> String {
    String::new()
}

// core's memchr / memrchr take a word-at-a-time path built on pointer alignment, which the symbolic executor
// treats as unknown even on concrete text.  The unchanged code does not search strings at all; a tree that
// starts to (split / find / trim on the source text) would otherwise only time out.  Both stubs are exact.
fn memchr_aligned_stub(x: u8, text: &[u8]) -> Option<usize> {
    let mut i = 0;
    while i < text.len() {
        if text[i] == x {
            return Some(i);
        }
        i += 1;
    }
    None
}
fn memrchr_stub(x: u8, text: &[u8]) -> Option<usize> {
    let mut i = text.len();
    while i > 0 {
        i -= 1;
        if text[i] == x {
            return Some(i);
        }
    }
    None
}

/// reference over bytes; `text` is valid UTF-8; returns (line, column), both 1-based
fn ref_line_column(text: &[u8], offset: usize) -> (usize, usize) {
    let mut line = 1;
    let mut col = 1;
    let mut i = 0;
    while i < offset {
        let c = text[i];
        if c == b'\n' {
            line += 1;
            col = 1;
        } else if c == b'\r' {
            // \r\n is one terminator, it ends at the \n; a lone \r is one too
            if i + 1 < text.len() && text[i + 1] == b'\n' {
                col += 1;
            } else {
                line += 1;
                col = 1;
            }
        } else if c & 0xC0 != 0x80 {
            // every byte that starts a scalar value counts once
            col += 1;
        }
        i += 1;
    }
    (line, col)
}

/// offsets whose position the property pins down: on a character boundary and not between the \r and \n of one terminator
fn position_is_specified(text: &[u8], offset: usize) -> bool {
    on_char_boundary(text, offset) && !(offset > 0 && offset < text.len() && text[offset - 1] == b'\r' && text[offset] == b'\n')
}

fn on_char_boundary(text: &[u8], offset: usize) -> bool {
    offset >= text.len() || text[offset] & 0xC0 != 0x80
}

fn lc_is(got: &Option<LineColumn>, want: (usize, usize)) -> bool {
    matches!(got, Some(lc) if lc.line == want.0 && lc.column == want.1)
}

pub(super) fn line_column_text(text: &'static str) {
    let bytes = text.as_bytes();
    let n = bytes.len();
    let file = mk::source_file(text.to_owned());
    let offset: usize = kani::any();
    let got = file.get_line_column(offset);
    std::mem::forget(file);
    if offset > n {
        assert!(got.is_none(), "an offset past the end has no position");
    } else {
        if on_char_boundary(bytes, offset) {
            assert!(got.is_some(), "every offset up to and including the end has a position");
        }
        if position_is_specified(bytes, offset) {
            let want = ref_line_column(bytes, offset);
            assert!(matches!(&got, Some(lc) if lc.line == want.0), "line number follows the GraphQL LineTerminator rule");
            assert!(matches!(&got, Some(lc) if lc.column == want.1), "column counts Unicode scalar values");
        }
    }
    kani::cover!(offset == n, "position at the very end");
    kani::cover!(offset == 0, "position at the start");
    kani::cover!(offset == n + 1, "first offset past the end");
    kani::cover!(offset == usize::MAX, "largest offset");
}

// ranges: both ends, independently
pub(super) fn line_column_range_text(text: &'static str) {
    let bytes = text.as_bytes();
    let n = bytes.len();
    let file = mk::source_file(text.to_owned());
    let start: usize = kani::any();
    let end: usize = kani::any();
    let range = file.get_line_column_range(start..end);
    std::mem::forget(file);
    if start > n || end > n {
        assert!(range.is_none(), "a range with an end out of bounds has no position");
    } else {
        if on_char_boundary(bytes, start) && on_char_boundary(bytes, end) {
            assert!(range.is_some(), "a range with both ends in bounds has a position");
        }
        if position_is_specified(bytes, start) && position_is_specified(bytes, end) {
            let (s, e) = (ref_line_column(bytes, start), ref_line_column(bytes, end));
            assert!(matches!(&range, Some(r) if lc_is(&Some(r.start), s) && lc_is(&Some(r.end), e)), "range = positions of both ends");
        }
    }
    kani::cover!(start < end && end == n, "non-empty range up to the end");
    kani::cover!(start > end && start <= n, "reversed range");
    kani::cover!(end == n + 1, "end just out of bounds");
}

macro_rules! text_harness {
    ($name:ident, $unwind:expr, $text:expr) => {
        #[kani::proof]
        #[kani::unwind($unwind)]
        #[kani::stub(alloc::fmt::format, fmt_stub)]
#[kani::stub(core::slice::memchr::memchr_aligned, memchr_aligned_stub)]
#[kani::stub(core::slice::memchr::memrchr, memrchr_stub)]
        fn $name() {
            line_column_text($text);
        }
    };
}
macro_rules! range_harness {
    ($name:ident, $unwind:expr, $text:expr) => {
        #[kani::proof]
        #[kani::unwind($unwind)]
        #[kani::stub(alloc::fmt::format, fmt_stub)]
#[kani::stub(core::slice::memchr::memchr_aligned, memchr_aligned_stub)]
#[kani::stub(core::slice::memchr::memrchr, memrchr_stub)]
        fn $name() {
            line_column_range_text($text);
        }
    };
}
// unwind = bytes + 8 (ariadne, if a tree goes back to it, walks characters and its separator list)
text_harness!(c11_text_empty, 8, "");
text_harness!(c11_text_lf, 14, "ab\ncd");
text_harness!(c11_text_cr_crlf, 15, "a\r\nb\rc");
text_harness!(c11_text_only_terminators, 13, "\n\r\r\n\n");
text_harness!(c11_text_cr_cr_lf, 12, "\r\r\n");
text_harness!(c11_text_trailing_cr, 11, "a\r");
text_harness!(c11_text_trailing_lf, 11, "a\n");
text_harness!(c11_text_vt_ff, 14, "a\x0Cb\x0Bc");
text_harness!(c11_text_two_byte_char, 11, "\u{e9}x");
text_harness!(c11_text_four_byte_char, 14, "\u{1F680} x");
text_harness!(c11_text_multibyte_columns, 20, "\"\u{e9}\u{4e2d}\u{1F680}\" x");
text_harness!(c11_text_ls_in_comment, 14, "#\u{2028}\nx");
text_harness!(c11_text_nel_ps, 14, "\u{85}\u{2029}x");
text_harness!(c11_text_mixed, 36, "{\r\n  f # \u{e9}\x0C\u{2028}\n}\r\u{1F680}x");
range_harness!(c11_range_lf, 14, "ab\ncd");
range_harness!(c11_range_crlf_two_byte, 14, "\u{e9}\r\nb");

// ---- one SYMBOLIC text byte: text = prefix ++ [b] for every ASCII byte b, every offset -------------------------
pub(super) fn line_column_prefix<const N: usize>(prefix: &[u8], lo: u8, hi: u8) {
    let b: u8 = kani::any();
    kani::assume(b >= lo && b <= hi);
    let mut text = [0u8; N];
    let mut i = 0;
    while i + 1 < N {
        text[i] = prefix[i];
        i += 1;
    }
    text[N - 1] = b;
    // valid UTF-8 by construction: ASCII prefix + ASCII byte, or a lead byte + one continuation byte
    let s = unsafe { std::str::from_utf8_unchecked(&text[..]) };
    let file = mk::source_file(s.to_owned());
    let offset: usize = kani::any();
    let got = file.get_line_column(offset);
    std::mem::forget(file);
    if offset > N {
        assert!(got.is_none(), "an offset past the end has no position");
    } else {
        if on_char_boundary(&text[..], offset) {
            assert!(got.is_some(), "every offset up to and including the end has a position");
        }
        if position_is_specified(&text[..], offset) {
            let want = ref_line_column(&text[..], offset);
            assert!(matches!(&got, Some(lc) if lc.line == want.0), "line number follows the GraphQL LineTerminator rule");
            assert!(matches!(&got, Some(lc) if lc.column == want.1), "column counts Unicode scalar values");
        }
    }
    kani::cover!(b == lo && offset == N, "lowest byte, position at the end");
    kani::cover!(b == hi && offset == N - 1, "highest byte, position before it");
    kani::cover!(b == lo + 10 && offset == N + 1, "out of bounds");
}

macro_rules! prefix_harness {
    ($name:ident, $n:expr, $unwind:expr, $prefix:expr, $lo:expr, $hi:expr) => {
        #[kani::proof]
        #[kani::unwind($unwind)]
        #[kani::stub(alloc::fmt::format, fmt_stub)]
#[kani::stub(core::slice::memchr::memchr_aligned, memchr_aligned_stub)]
#[kani::stub(core::slice::memchr::memrchr, memrchr_stub)]
        fn $name() {
            line_column_prefix::<$n>($prefix, $lo, $hi);
        }
    };
}
prefix_harness!(c11_prefix_empty, 1, 9, b"", 0, 0x7F);
prefix_harness!(c11_prefix_letter, 2, 10, b"a", 0, 0x7F);
prefix_harness!(c11_prefix_bare_cr, 2, 10, b"\r", 0, 0x7F);
prefix_harness!(c11_prefix_cr, 3, 11, b"a\r", 0, 0x7F);
// second byte of a 2-byte character symbolic: U+00C0..U+00FF
prefix_harness!(c11_prefix_two_byte_lead, 3, 11, b"a\xC3", 0x80, 0xBF);
// last byte of a 3-byte (U+2000..U+203F: includes U+2028/U+2029) and of a 4-byte character (U+1F600..U+1F63F) symbolic
prefix_harness!(c11_prefix_three_byte_lead, 4, 12, b"a\xE2\x80", 0x80, 0xBF);
prefix_harness!(c11_prefix_four_byte_lead, 5, 13, b"a\xF0\x9F\x98", 0x80, 0xBF);
// U+0080..U+00BF: includes U+0085 (NEL)
prefix_harness!(c11_prefix_c2_lead, 2, 10, b"\xC2", 0x80, 0xBF);
prefix_harness!(c11_prefix_crlf, 4, 12, b"a\r\n", 0, 0x7F);
prefix_harness!(c11_prefix_lf, 3, 11, b"a\n", 0, 0x7F);
prefix_harness!(c11_prefix_ff, 3, 11, b"a\x0C", 0, 0x7F);
prefix_harness!(c11_prefix_lf_letter, 4, 12, b"a\nb", 0, 0x7F);

// ---- TWO symbolic text bytes: every valid UTF-8 text of exactly 2 bytes, every offset -------------------------
#[kani::proof]
#[kani::unwind(10)]
#[kani::stub(alloc::fmt::format, fmt_stub)]
#[kani::stub(core::slice::memchr::memchr_aligned, memchr_aligned_stub)]
#[kani::stub(core::slice::memchr::memrchr, memrchr_stub)]
fn c11_any_two_bytes() {
    let text: [u8; 2] = kani::any();
    // valid UTF-8 of length 2: two ASCII bytes, or one 2-byte character
    let ascii = text[0] < 0x80 && text[1] < 0x80;
    let two = text[0] >= 0xC2 && text[0] <= 0xDF && text[1] & 0xC0 == 0x80;
    kani::assume(ascii || two);
    let s = unsafe { std::str::from_utf8_unchecked(&text[..]) };
    let file = mk::source_file(s.to_owned());
    let offset: usize = kani::any();
    let got = file.get_line_column(offset);
    std::mem::forget(file);
    if offset > 2 {
        assert!(got.is_none(), "an offset past the end has no position");
    } else {
        if on_char_boundary(&text[..], offset) {
            assert!(got.is_some(), "every offset up to and including the end has a position");
        }
        if position_is_specified(&text[..], offset) {
            let want = ref_line_column(&text[..], offset);
            assert!(matches!(&got, Some(lc) if lc.line == want.0), "line number follows the GraphQL LineTerminator rule");
            assert!(matches!(&got, Some(lc) if lc.column == want.1), "column counts Unicode scalar values");
        }
    }
    kani::cover!(text[0] == b'\r' && text[1] == b'\n' && offset == 2, "CR LF, position at the end");
    kani::cover!(text[0] == b'\n' && text[1] == b'\r' && offset == 2, "LF CR, position at the end");
    kani::cover!(two && offset == 2, "2-byte character, position at the end");
}

// vacuity twin: must FAIL (claims every position is on line 1)
#[kani::proof]
#[kani::unwind(12)]
#[kani::stub(alloc::fmt::format, fmt_stub)]
#[kani::stub(core::slice::memchr::memchr_aligned, memchr_aligned_stub)]
#[kani::stub(core::slice::memchr::memrchr, memrchr_stub)]
fn c11_twin_must_fail() {
    let file = mk::source_file("a\nb".to_owned());
    let got = file.get_line_column(2);
    std::mem::forget(file);
    assert!(matches!(got, Some(lc) if lc.line == 1));
}
