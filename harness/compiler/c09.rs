// C09 (quoted form) — child module of apollo_compiler::ast::serialize.
//
// For every string  prefix ++ [b]  (prefix concrete and listed, b = EVERY byte 0x00..0x7F, so control characters,
// quotes, backslashes, tab, LF, CR are all in the domain), serialising `Value::String` without indentation
// (newlines disabled, hence always the quoted form) yields text that
//   * is exactly one lexically valid StringValue token (reference lexer), and
//   * decodes (spec StringValue semantics) to exactly the original string.
#![allow(dead_code)]
use super::*;
use apollo_parser::{Lexer, TokenKind};
use std::fmt::Write as _;

include!("parser_ref_lexer.rs");

fn fmt_stub(_args: std::fmt::Arguments<'_>) -> String {
    String::new()
}

const SINK_CAP: usize = 32;
struct Sink {
    buf: [u8; SINK_CAP],
    len: usize,
    overflow: bool,
}
impl std::fmt::Write for Sink {
    fn write_str(&mut self, s: &str) -> std::fmt::Result {
        let b = s.as_bytes();
        let mut i = 0;
        while i < b.len() {
            if self.len < SINK_CAP {
                self.buf[self.len] = b[i];
                self.len += 1;
            } else {
                self.overflow = true;
            }
            i += 1;
        }
        Ok(())
    }
}

pub(super) fn roundtrip_case<const N: usize>(prefix: &[u8], b: u8) {
    let mut text = [0u8; N];
    let mut i = 0;
    while i + 1 < N {
        text[i] = prefix[i];
        i += 1;
    }
    text[N - 1] = b;
    let s = unsafe { std::str::from_utf8_unchecked(&text[..]) };
    let v = Value::String(s.to_owned());
    let mut sink = Sink { buf: [0; SINK_CAP], len: 0, overflow: false };
    let r = write!(sink, "{}", v.serialize().no_indent());
    std::mem::forget(v);
    assert!(r.is_ok() && !sink.overflow);
    let out = &sink.buf[..sink.len];
    // one valid StringValue token covering the whole output
    let tok = ref_token(out, 0);
    assert!(matches!(tok, Some((TokenKind::StringValue, end)) if end == out.len()));
    assert!(out.len() >= 2 && out[0] == b'"' && out[out.len() - 1] == b'"');
    // quoted form (not a block string), decodes back to the input
    let body = &out[1..out.len() - 1];
    let mut dec = [0u8; OUT_CAP];
    let n = ref_decode(body, &mut dec);
    let mut ok = n == N;
    let mut k = 0;
    while k < N && k < n {
        ok &= dec[k] == text[k];
        k += 1;
    }
    assert!(ok);
}

#[path = "compiler_c09_prefix.rs"]
mod prefixes;

// vacuity twin: must FAIL (claims a quote is written unescaped)
#[kani::proof]
#[kani::unwind(12)]
#[kani::stub(alloc::fmt::format, fmt_stub)]
fn c09_twin_must_fail() {
    let v = Value::String("\"".to_owned());
    let mut sink = Sink { buf: [0; SINK_CAP], len: 0, overflow: false };
    let _ = write!(sink, "{}", v.serialize().no_indent());
    std::mem::forget(v);
    assert!(sink.len == 3);
}

