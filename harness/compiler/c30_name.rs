// C30 (names) — child module of crate::name; run WITH Kani's pointer checks (dangling / freed / out-of-bounds
// dereference, double free, invalid Arc::from_raw) because name.rs manages an Arc<str> through a raw pointer.
//
//  * a bounded history of operations on a heap-backed Name and its clones keeps the backing Arc's strong
//    count equal to 1 + number of live names (no leak, no premature free), and it is 1 after everything
//    is dropped;
//  * text and location read back are the ones supplied; the heap/static tag survives with_location;
//  * as_static_str().is_some() <=> to_cloned_arc().is_none();
//  * Eq / Ord / Hash look at the text only.
#![allow(dead_code)]
use super::*;
use rowan::TextSize;

fn fmt_stub(_args: std::fmt::Arguments<'_>) -> String {
    String::new()
}

fn any_file_id() -> FileId {
    // any id a real FileId can hold: non-zero, bit 63 clear (FileId::NONE = 2 means "no location")
    let raw: u64 = kani::any();
    kani::assume(raw != 0 && raw >> 63 == 0);
    unsafe { std::mem::transmute::<u64, FileId>(raw) }
}

fn any_span(len: u32) -> SourceSpan {
    let start: u32 = kani::any();
    kani::assume(start <= u32::MAX - len);
    SourceSpan { file_id: any_file_id(), text_range: TextRange::at(TextSize::from(start), TextSize::from(len)) }
}

fn loc_matches(n: &Name, want: Option<SourceSpan>) -> bool {
    match (n.location(), want) {
        (None, None) => true,
        (Some(a), Some(b)) => a.file_id == b.file_id && a.text_range == b.text_range,
        _ => false,
    }
}

fn expected_location(span: SourceSpan) -> Option<SourceSpan> {
    if span.file_id == FileId::NONE {
        None
    } else {
        Some(span)
    }
}

// ---- heap-backed names: reference-count balance over operation histories -------------------------
fn heap_history(steps: usize) {
    let b0: u8 = kani::any();
    let b1: u8 = kani::any();
    kani::assume(b0 < 128 && b1 < 128);
    let bytes = [b0, b1];
    let text = unsafe { std::str::from_utf8_unchecked(&bytes[..]) };
    let witness: Arc<str> = Arc::from(text);
    // slot 0 always holds a name while the history runs; slot 1 is optional
    let mut a: Name = Name::from_arc_unchecked(witness.clone());
    let mut b: Option<Name> = None;
    let mut live = 1usize;
    let mut loc_a: Option<SourceSpan> = None;
    let mut loc_b: Option<SourceSpan> = None;
    assert!(Arc::strong_count(&witness) == 1 + live);
    let mut i = 0;
    while i < steps {
        let op: u8 = kani::any();
        kani::assume(op < 6);
        match op {
            0 => {
                // clone a into slot b (dropping what was there)
                if b.is_some() {
                    live -= 1;
                }
                b = Some(a.clone());
                loc_b = loc_a;
                live += 1;
            }
            1 => {
                // drop slot b
                if b.take().is_some() {
                    live -= 1;
                }
                loc_b = None;
            }
            2 => {
                // attach a location to a
                let span = any_span(2);
                a = a.with_location(span);
                loc_a = expected_location(span);
            }
            3 => {
                // take and release a shared string
                let arc = a.to_cloned_arc();
                assert!(arc.is_some());
                assert!(Arc::strong_count(&witness) == 2 + live);
                drop(arc);
            }
            4 => {
                // convert slot b back into an Arc<str>
                if let Some(n) = b.take() {
                    let arc: Arc<str> = n.into();
                    assert!(Arc::ptr_eq(&arc, &witness));
                    // the Name was consumed (dropped), the Arc is one more owner
                    assert!(Arc::strong_count(&witness) == 1 + live);
                    drop(arc);
                    live -= 1;
                    loc_b = None;
                }
            }
            _ => {
                // swap the slots when b is occupied
                if let Some(n) = b.take() {
                    b = Some(std::mem::replace(&mut a, n));
                    std::mem::swap(&mut loc_a, &mut loc_b);
                }
            }
        }
        // invariants after every step
        assert!(Arc::strong_count(&witness) == 1 + live);
        assert!(a.as_str().as_bytes()[0] == b0 && a.as_str().as_bytes()[1] == b1 && a.len() == 2);
        assert!(loc_matches(&a, loc_a));
        assert!(a.as_static_str().is_none());
        if let Some(n) = &b {
            assert!(n.as_str().as_bytes()[0] == b0 && n.len() == 2);
            assert!(loc_matches(n, loc_b));
            assert!(*n == a);
        }
        i += 1;
    }
    kani::cover!(live == 2 && loc_a.is_some(), "two live names, one located");
    drop(a);
    drop(b);
    assert!(Arc::strong_count(&witness) == 1);
    kani::cover!(true, "history completed");
}

#[kani::proof]
#[kani::unwind(5)]
#[kani::stub(alloc::fmt::format, fmt_stub)]
fn c30_name_heap_history_k2() {
    heap_history(2);
}

#[kani::proof]
#[kani::unwind(5)]
#[kani::stub(alloc::fmt::format, fmt_stub)]
fn c30_name_heap_history_k3() {
    heap_history(3);
}

#[kani::proof]
#[kani::unwind(6)]
#[kani::stub(alloc::fmt::format, fmt_stub)]
fn c30_name_heap_history_k4() {
    heap_history(4);
}

#[kani::proof]
#[kani::unwind(8)]
#[kani::stub(alloc::fmt::format, fmt_stub)]
fn c30_name_heap_history_k6() {
    heap_history(6);
}

// ---- creation paths ---------------------------------------------------------------------------------
#[kani::proof]
#[kani::unwind(5)]
#[kani::stub(alloc::fmt::format, fmt_stub)]
fn c30_name_creation_paths() {
    let b0: u8 = kani::any();
    kani::assume(b0 < 128);
    let bytes = [b0, b'x'];
    let text = unsafe { std::str::from_utf8_unchecked(&bytes[..]) };
    // borrowed string: fresh allocation owned by the name alone
    let n = Name::new_unchecked(text);
    assert!(n.as_str().as_bytes()[0] == b0 && n.len() == 2 && n.location().is_none());
    let arc = n.to_cloned_arc();
    assert!(matches!(&arc, Some(a) if Arc::strong_count(a) == 2));
    let c = n.clone();
    assert!(matches!(&arc, Some(a) if Arc::strong_count(a) == 3));
    drop(n);
    assert!(c.as_str().as_bytes()[0] == b0);
    assert!(matches!(&arc, Some(a) if Arc::strong_count(a) == 2));
    drop(c);
    assert!(matches!(&arc, Some(a) if Arc::strong_count(a) == 1 && a.as_bytes()[0] == b0));
    // static string: no reference count at all
    let st: &'static str = unsafe { std::mem::transmute::<&str, &'static str>(text) };
    let s = Name::new_static_unchecked(st);
    assert!(s.as_static_str().is_some() && s.to_cloned_arc().is_none());
    let s2 = s.clone().with_location(any_span(2));
    assert!(s2.as_static_str().is_some() && s2.to_cloned_arc().is_none());
    assert!(s2 == s);
    let back: Arc<str> = s2.into();
    assert!(Arc::strong_count(&back) == 1 && back.as_bytes()[0] == b0);
    kani::cover!(b0 == b'_', "reached with an underscore");
}

// ---- location round trip, both representations --------------------------------------------------------
#[kani::proof]
#[kani::unwind(5)]
#[kani::stub(alloc::fmt::format, fmt_stub)]
fn c30_name_location_roundtrip() {
    let heap: bool = kani::any();
    let n = if heap { Name::new_unchecked("ab") } else { Name::new_static_unchecked("ab") };
    let span = any_span(2);
    let n = n.with_location(span);
    assert!(loc_matches(&n, expected_location(span)));
    assert!(n.as_str().len() == 2 && n.as_str().as_bytes()[0] == b'a');
    // the representation tag is not disturbed by any file id
    assert!(n.as_static_str().is_some() == !heap);
    assert!(n.to_cloned_arc().is_some() == heap);
    // a second location replaces the first
    let span2 = any_span(2);
    let n = n.with_location(span2);
    assert!(loc_matches(&n, expected_location(span2)));
    assert!(n.as_static_str().is_some() == !heap);
    kani::cover!(heap && span.file_id != FileId::NONE, "heap name with a real location");
    kani::cover!(!heap && span.file_id == FileId::NONE, "static name given the no-location id");
}

// ---- Eq / Ord / Hash ignore locations ---------------------------------------------------------------------
struct Fnv(u64);
impl std::hash::Hasher for Fnv {
    fn finish(&self) -> u64 {
        self.0
    }
    fn write(&mut self, bytes: &[u8]) {
        let mut i = 0;
        while i < bytes.len() {
            self.0 = (self.0 ^ bytes[i] as u64).wrapping_mul(0x100000001b3);
            i += 1;
        }
    }
}

fn hash_of(n: &Name) -> u64 {
    use std::hash::Hash;
    let mut h = Fnv(0xcbf29ce484222325);
    n.hash(&mut h);
    std::hash::Hasher::finish(&h)
}

#[kani::proof]
#[kani::unwind(6)]
#[kani::stub(alloc::fmt::format, fmt_stub)]
fn c30_name_eq_ord_hash() {
    let x: u8 = kani::any();
    let y: u8 = kani::any();
    kani::assume(x < 128 && y < 128);
    let (bx, by) = ([b'a', x], [b'a', y]);
    let (tx, ty) = unsafe { (std::str::from_utf8_unchecked(&bx[..]), std::str::from_utf8_unchecked(&by[..])) };
    let a = Name::new_unchecked(tx).with_location(any_span(2));
    let sty: &'static str = unsafe { std::mem::transmute::<&str, &'static str>(ty) };
    let b = if kani::any() { Name::new_unchecked(ty) } else { Name::new_static_unchecked(sty) };
    let b = if kani::any() { b.with_location(any_span(2)) } else { b };
    assert!((a == b) == (x == y));
    assert!(a.cmp(&b) == x.cmp(&y));
    assert!(a.partial_cmp(&b) == Some(x.cmp(&y)));
    if a == b {
        assert!(hash_of(&a) == hash_of(&b));
    }
    assert!((a == *ty) == (x == y));
    kani::cover!(a == b && a.location().is_some() && b.location().is_none(), "equal names with different locations");
    kani::cover!(a != b, "different names");
}

// vacuity twin: must FAIL (claims a clone does not take a reference)
#[kani::proof]
#[kani::unwind(5)]
#[kani::stub(alloc::fmt::format, fmt_stub)]
fn c30_name_twin_must_fail() {
    let witness: Arc<str> = Arc::from("ab");
    let a = Name::from_arc_unchecked(witness.clone());
    let b = a.clone();
    assert!(Arc::strong_count(&witness) == 2);
    drop(a);
    drop(b);
}
