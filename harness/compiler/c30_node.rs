// C30 (nodes) — child module of crate::node; run WITH Kani's pointer checks.
//
//  * clone shares the allocation (ptr_eq), make_mut on a shared node copies first so the clone never sees the
//    mutation, make_mut/get_mut on a unique node mutate in place, get_mut on a shared node refuses;
//  * value and location read back are the ones supplied; Eq/Hash ignore the location;
//  * triomphe's strong count follows clones and drops (no leak, no premature free).
#![allow(dead_code)]
use super::*;
use rowan::{TextRange, TextSize};

fn fmt_stub(_args: std::fmt::Arguments<'_>) -> String {
    String::new()
}

fn any_span() -> SourceSpan {
    let raw: u64 = kani::any();
    kani::assume(raw != 0 && raw >> 63 == 0);
    let file_id = unsafe { std::mem::transmute::<u64, FileId>(raw) };
    let start: u32 = kani::any();
    let len: u32 = kani::any();
    kani::assume(start <= u32::MAX - len);
    SourceSpan { file_id, text_range: TextRange::at(TextSize::from(start), TextSize::from(len)) }
}

fn same_loc(a: Option<SourceSpan>, b: Option<SourceSpan>) -> bool {
    match (a, b) {
        (None, None) => true,
        (Some(x), Some(y)) => x.file_id == y.file_id && x.text_range == y.text_range,
        _ => false,
    }
}

fn count<T: ?Sized>(n: &Node<T>) -> usize {
    triomphe::Arc::count(&n.0)
}

// a bounded history over two slots of Node<u32>
fn node_history(steps: usize) {
    let v0: u32 = kani::any();
    let loc0 = if kani::any() { Some(any_span()) } else { None };
    let mut a: Node<u32> = Node::new_opt_location(v0, loc0);
    let mut b: Option<Node<u32>> = None;
    let mut val_a = v0;
    let mut val_b = 0u32;
    let mut shared = false; // b is Some and points to the same allocation as a
    let mut i = 0;
    while i < steps {
        let op: u8 = kani::any();
        kani::assume(op < 5);
        match op {
            0 => {
                b = Some(a.clone());
                val_b = val_a;
                shared = true;
            }
            1 => {
                b = None;
                shared = false;
            }
            2 => {
                // copy-on-write mutation through a
                let w: u32 = kani::any();
                *a.make_mut() = w;
                val_a = w;
                shared = false;
            }
            3 => {
                // copy-on-write mutation through b
                let w: u32 = kani::any();
                if let Some(n) = &mut b {
                    *n.make_mut() = w;
                    val_b = w;
                    shared = false;
                }
            }
            _ => {
                // get_mut only succeeds on a unique node
                let w: u32 = kani::any();
                match a.get_mut() {
                    Some(slot) => {
                        assert!(!shared);
                        *slot = w;
                        val_a = w;
                    }
                    None => assert!(shared),
                }
            }
        }
        assert!(*a == val_a);
        assert!(same_loc(a.location(), loc0));
        assert!(count(&a) == if shared { 2 } else { 1 });
        if let Some(n) = &b {
            assert!(**n == val_b);
            assert!(same_loc(n.location(), loc0));
            assert!(n.ptr_eq(&a) == shared);
            assert!((*n == a) == (val_a == val_b));
            assert!(count(n) == if shared { 2 } else { 1 });
        }
        i += 1;
    }
    kani::cover!(b.is_some() && !shared && val_a != val_b, "clone and original diverged after copy-on-write");
    kani::cover!(shared, "still sharing at the end");
}

#[kani::proof]
#[kani::unwind(5)]
#[kani::stub(alloc::fmt::format, fmt_stub)]
fn c30_node_history_k3() {
    node_history(3);
}

#[kani::proof]
#[kani::unwind(7)]
#[kani::stub(alloc::fmt::format, fmt_stub)]
fn c30_node_history_k5() {
    node_history(5);
}

#[kani::proof]
#[kani::unwind(10)]
#[kani::stub(alloc::fmt::format, fmt_stub)]
fn c30_node_history_k8() {
    node_history(8);
}

struct Fnv(u64);
impl Hasher for Fnv {
    fn finish(&self) -> u64 {
        self.0
    }
    fn write(&mut self, bytes: &[u8]) {
        let mut i = 0;
        while i < bytes.len() {
            self.0 = (self.0 ^ bytes[i] as u64).wrapping_mul(0x100000001b3);
            i += 1;
        }
    }
}

fn hash_of<T: ?Sized + Hash>(n: &Node<T>) -> u64 {
    let mut h = Fnv(0xcbf29ce484222325);
    n.hash(&mut h);
    h.finish()
}

// equality and hashing ignore the location; same_location keeps it; str nodes read back their text
#[kani::proof]
#[kani::unwind(6)]
#[kani::stub(alloc::fmt::format, fmt_stub)]
fn c30_node_eq_hash_location() {
    let x: u32 = kani::any();
    let y: u32 = kani::any();
    let la = any_span();
    let a = Node::new_parsed(x, la);
    let b = Node::new(y);
    assert!((a == b) == (x == y));
    if a == b {
        assert!(hash_of(&a) == hash_of(&b));
    }
    assert!(same_loc(a.location(), Some(la)) && b.location().is_none());
    let c: Node<u64> = a.same_location(7u64);
    assert!(same_loc(c.location(), Some(la)) && *c == 7);
    assert!(a.is_built_in() == (la.file_id == FileId::BUILT_IN));
    let ch: u8 = kani::any();
    kani::assume(ch < 128);
    let bytes = [ch, b'z'];
    let text = unsafe { std::str::from_utf8_unchecked(&bytes[..]) };
    let s1 = Node::new_str_parsed(text, la);
    let s2 = Node::new_str(text);
    assert!(s1.as_str().len() == 2 && s1.as_str().as_bytes()[0] == ch);
    assert!(s1 == s2 && hash_of(&s1) == hash_of(&s2));
    assert!(same_loc(s1.location(), Some(la)) && s2.location().is_none());
    let s3 = s1.clone();
    assert!(s3.ptr_eq(&s1) && count(&s1) == 2);
    drop(s1);
    assert!(count(&s3) == 1 && s3.as_str().as_bytes()[0] == ch);
    kani::cover!(x == y, "equal values, different locations");
    kani::cover!(la.file_id == FileId::BUILT_IN, "built-in file id");
}

// vacuity twin: must FAIL (claims make_mut on a shared node mutates the clone too)
#[kani::proof]
#[kani::unwind(5)]
#[kani::stub(alloc::fmt::format, fmt_stub)]
fn c30_node_twin_must_fail() {
    let mut a = Node::new(1u32);
    let b = a.clone();
    *a.make_mut() = 2;
    assert!(*b == 2);
}
