// C29 — type compatibility predicates vs. the specification's algorithms.
// Child module of crate::validation::variable (is_variable_usage_allowed is private there).
//
//   Type::is_assignable_to                 == AreTypesCompatible            (spec 5.8.5)
//   is_variable_usage_allowed              == IsVariableUsageAllowed        (spec 5.8.5)
//   is_valid_implementation_field_type     == IsValidImplementationFieldType (spec 3.6 / 3.7)
//
// Symbolic inputs: two type references built from kani::any() choices up to a nesting depth,
// names from a pool of static names; variable default in {absent, null, several non-null values};
// location default in {absent, present}; the schema's subtype relation as an arbitrary boolean table.
#![allow(dead_code)]
use super::is_variable_usage_allowed;
use crate::ast;
use crate::ast::Type;
use crate::ast::Value;
use crate::Name;
use crate::Node;

#[path = "kf.rs"]
mod kf;
#[path = "mode.rs"]
mod mode;

fn fmt_stub(_args: std::fmt::Arguments<'_>) -> String {
    String::new()
}

fn any_name(pool: u8) -> (Name, u8) {
    let i: u8 = kani::any();
    kani::assume(i < pool);
    // an if-chain, not NAMES[i]: indexing a table of &str with a symbolic index makes the data pointer an
    // array-theory term and the later memcmp on it exhausts memory (measured: > 60 GB)
    if i == 0 {
        (Name::new_static_unchecked("A"), 0)
    } else if i == 1 {
        (Name::new_static_unchecked("B"), 1)
    } else {
        (Name::new_static_unchecked("C"), 2)
    }
}

fn any_type(depth: u32, pool: u8) -> Type {
    let k: u8 = kani::any();
    if depth == 0 || k & 2 == 0 {
        let (n, _) = any_name(pool);
        if k & 1 == 0 {
            Type::Named(n)
        } else {
            Type::NonNullNamed(n)
        }
    } else {
        let inner = Box::new(any_type(depth - 1, pool));
        if k & 1 == 0 {
            Type::List(inner)
        } else {
            Type::NonNullList(inner)
        }
    }
}

/// A type reference whose list nesting (`levels`) and non-null markers (`mask`, bit 0 = outermost) are
/// concrete for the symbolic executor, with a symbolic name.  Harnesses that use it loop over every
/// (levels, mask) pair, so the input domain is the same as `any_type(depth)`; the difference is that the
/// executor forks per shape instead of merging shapes into one formula.  This is what makes the
/// clone-and-drop inside `is_variable_usage_allowed` tractable (a merged, symbolic-shape clone did not
/// finish in 40 min).  Names, default values and the location default stay symbolic for the solver.
fn forked_type(levels: u32, mask: u32, pool: u8) -> Type {
    let nn = mask & 1 != 0;
    if levels == 0 {
        let (n, _) = any_name(pool);
        if nn {
            Type::NonNullNamed(n)
        } else {
            Type::Named(n)
        }
    } else {
        let inner = Box::new(forked_type(levels - 1, mask >> 1, pool));
        if nn {
            Type::NonNullList(inner)
        } else {
            Type::List(inner)
        }
    }
}

fn depth_of(t: &Type) -> u32 {
    match t {
        Type::Named(_) | Type::NonNullNamed(_) => 0,
        Type::List(i) | Type::NonNullList(i) => 1 + depth_of(i),
    }
}

fn is_nn(t: &Type) -> bool {
    matches!(t, Type::NonNullNamed(_) | Type::NonNullList(_))
}

/// spec AreTypesCompatible(variableType, locationType), transcribed without cloning.
/// Steps 1 and 2 only strip non-null wrappers (and reject nullable-into-non-null), so they are folded
/// into `ref_compat`; steps 3-5 on the unwrapped types are `compat_unwrapped`.  One recursive call
/// site per nesting level keeps the symbolic execution linear in the depth.
fn compat_unwrapped(var: &Type, loc: &Type) -> bool {
    match (var, loc) {
        // 3. if locationType is a list type: (a) variableType must be a list type, (b-d) recurse on item types
        (Type::List(v) | Type::NonNullList(v), Type::List(l) | Type::NonNullList(l)) => ref_compat(v, l),
        (Type::Named(_) | Type::NonNullNamed(_), Type::List(_) | Type::NonNullList(_)) => false,
        // 4. Otherwise, if variableType is a list type, return false.
        (Type::List(_) | Type::NonNullList(_), Type::Named(_) | Type::NonNullNamed(_)) => false,
        // 5. Return true if variableType and locationType are identical, otherwise false.
        (Type::Named(v) | Type::NonNullNamed(v), Type::Named(l) | Type::NonNullNamed(l)) => {
            v.as_str() == l.as_str()
        }
    }
}

fn ref_compat(var: &Type, loc: &Type) -> bool {
    // 1. If locationType is a non-null type: (a) if variableType is NOT a non-null type, return false;
    //    (b-d) unwrap both.   2. Otherwise, if variableType is a non-null type, unwrap it.
    if is_nn(loc) && !is_nn(var) {
        return false;
    }
    compat_unwrapped(var, loc)
}

macro_rules! assignable_harness {
    ($name:ident, $depth:expr, $pool:expr, $unwind:expr) => {
        #[kani::proof]
        #[kani::unwind($unwind)]
        #[kani::stub(alloc::fmt::format, fmt_stub)]
        fn $name() {
            let a = any_type($depth, $pool);
            let b = any_type($depth, $pool);
            let got = a.is_assignable_to(&b);
            let want = ref_compat(&a, &b);
            let (da, db) = (depth_of(&a), depth_of(&b));
            std::mem::forget(a);
            std::mem::forget(b);
            assert!(got == want);
            kani::cover!(got && da == $depth && db == $depth, "compatible at the deepest nesting");
            kani::cover!(!got && da == $depth && db == $depth, "incompatible at the deepest nesting");
            kani::cover!(got && da == 0, "compatible named types");
        }
    };
}
// written out (harnesses produced only by a macro call are found by --harness when the macro is
// invoked at module level with a literal name: checked)
assignable_harness!(c29_assignable_d2, 2, 2, 5);
assignable_harness!(c29_assignable_d3, 3, 3, 6);

// ---------------------------------------------------------------------------------------------
// IsVariableUsageAllowed

fn any_default(non_null_only: bool) -> (Option<Node<Value>>, u8) {
    // 0 = absent, 1 = null, 2.. = non-null values of several kinds
    let k: u8 = kani::any();
    kani::assume(k < 7);
    if non_null_only {
        kani::assume(k != 1);
    }
    let v = match k {
        0 => None,
        1 => Some(Node::new(Value::Null)),
        2 => Some(Node::new(Value::Boolean(kani::any()))),
        3 => Some(Node::new(Value::Enum(Name::new_static_unchecked("E")))),
        4 => Some(Node::new(Value::List(Vec::new()))),
        5 => Some(Node::new(Value::Object(Vec::new()))),
        _ => Some(Node::new(Value::Variable(Name::new_static_unchecked("v")))),
    };
    (v, k)
}

/// spec IsVariableUsageAllowed(variableDefinition, variableUsage)
fn ref_usage_allowed(var: &Type, loc: &Type, var_default_kind: u8, loc_has_default: bool) -> bool {
    // 3. If locationType is a non-null type AND variableType is NOT a non-null type:
    if is_nn(loc) && !is_nn(var) {
        // a. hasNonNullVariableDefaultValue: a default value exists and is not the value null
        let has_non_null_default = var_default_kind >= 2;
        // c. if neither, return false
        if !has_non_null_default && !loc_has_default {
            return false;
        }
        // d-e. AreTypesCompatible(variableType, nullableLocationType)
        return compat_unwrapped(var, loc);
    }
    // 4. AreTypesCompatible(variableType, locationType)
    ref_compat(var, loc)
}

fn usage_case(var_ty: Type, loc_ty: Type, exclude_known: bool) {
    let (var_default, vk) = any_default(false);
    let loc_has_default: bool = kani::any();
    if exclude_known {
        // known finding C29_NULL_DEFAULT: variable default `null`, nullable variable in a non-null
        // location without location default.  Only excluded while listed in known_findings.json.
        kani::assume(!(vk == 1 && is_nn(&loc_ty) && !is_nn(&var_ty) && !loc_has_default));
    }
    let want = ref_usage_allowed(&var_ty, &loc_ty, vk, loc_has_default);
    let loc_nn = is_nn(&loc_ty);
    let var_nn = is_nn(&var_ty);
    // types of different list nesting are never compatible: only expect an allowed usage when the nesting agrees
    let same_nesting = depth_of(&var_ty) == depth_of(&loc_ty);
    let def = ast::VariableDefinition {
        name: Name::new_static_unchecked("v"),
        ty: Node::new(var_ty),
        default_value: var_default,
        directives: Default::default(),
    };
    let usage = ast::InputValueDefinition {
        description: None,
        name: Name::new_static_unchecked("arg"),
        ty: Node::new(loc_ty),
        default_value: if loc_has_default {
            Some(Node::new(Value::Boolean(true)))
        } else {
            None
        },
        directives: Default::default(),
    };
    let got = is_variable_usage_allowed(&def, &usage);
    std::mem::forget(def);
    std::mem::forget(usage);
    assert!(got == want);
    kani::cover!(got || !same_nesting, "some allowed usage of these shapes (when the list nesting agrees)");
    kani::cover!(!got, "some rejected usage of these shapes");
    kani::cover!(vk == 1, "null variable default in the domain");
    kani::cover!(vk >= 2 && loc_has_default, "non-null variable default and location default together");
}

// `is_variable_usage_allowed` takes `Node<Type>`s, clones the location type and drops the clone.  With the
// shapes merged into one formula (symbolic list nesting) the symbolic executor unrolls clone/drop recursion on
// infeasible shapes and did not finish in 40 min; so these harnesses *fork* instead: list nesting and non-null
// markers of both types are concrete per call (every shape pair up to the bound is listed, so the input domain
// is unchanged), while names, the variable default (absent / null / five non-null kinds) and the location
// default stay symbolic.  The derived `<Type as Clone>::clone` is replaced by the bounded structural copy below.
fn usage_all_locations_d1(lv: u32, mv: u32) {
    usage_case(forked_type(lv, mv, 2), forked_type(0, 0, 2), kf::C29_NULL_DEFAULT);
    usage_case(forked_type(lv, mv, 2), forked_type(0, 1, 2), kf::C29_NULL_DEFAULT);
    usage_case(forked_type(lv, mv, 2), forked_type(1, 0, 2), kf::C29_NULL_DEFAULT);
    usage_case(forked_type(lv, mv, 2), forked_type(1, 1, 2), kf::C29_NULL_DEFAULT);
    usage_case(forked_type(lv, mv, 2), forked_type(1, 2, 2), kf::C29_NULL_DEFAULT);
    usage_case(forked_type(lv, mv, 2), forked_type(1, 3, 2), kf::C29_NULL_DEFAULT);
}

fn usage_all_variables_d1(ll: u32, ml: u32) {
    usage_case(forked_type(0, 0, 2), forked_type(ll, ml, 2), kf::C29_NULL_DEFAULT);
    usage_case(forked_type(0, 1, 2), forked_type(ll, ml, 2), kf::C29_NULL_DEFAULT);
    usage_case(forked_type(1, 0, 2), forked_type(ll, ml, 2), kf::C29_NULL_DEFAULT);
    usage_case(forked_type(1, 1, 2), forked_type(ll, ml, 2), kf::C29_NULL_DEFAULT);
    usage_case(forked_type(1, 2, 2), forked_type(ll, ml, 2), kf::C29_NULL_DEFAULT);
    usage_case(forked_type(1, 3, 2), forked_type(ll, ml, 2), kf::C29_NULL_DEFAULT);
}

macro_rules! usage_var_harness {
    ($name:ident, $lv:expr, $mv:expr) => {
        #[kani::proof]
        #[kani::unwind(4)]
        #[kani::stub(alloc::fmt::format, fmt_stub)]
        #[kani::stub(<crate::ast::Type as std::clone::Clone>::clone, type_clone_stub)]
        fn $name() {
            usage_all_locations_d1($lv, $mv);
        }
    };
}
macro_rules! usage_loc_harness {
    ($name:ident, $ll:expr, $ml:expr) => {
        #[kani::proof]
        #[kani::unwind(5)]
        #[kani::stub(alloc::fmt::format, fmt_stub)]
        #[kani::stub(<crate::ast::Type as std::clone::Clone>::clone, type_clone_stub)]
        fn $name() {
            usage_all_variables_d1($ll, $ml);
        }
    };
}
// variable type x every location type, both with list nesting <= 1: 6 x 6 shape pairs
usage_var_harness!(c29_usage_var_named, 0, 0);
usage_var_harness!(c29_usage_var_named_nn, 0, 1);
usage_var_harness!(c29_usage_var_list, 1, 0);
usage_var_harness!(c29_usage_var_list_nn, 1, 1);
usage_var_harness!(c29_usage_var_list_of_nn, 1, 2);
usage_var_harness!(c29_usage_var_list_nn_of_nn, 1, 3);
// thorough: nesting 2 on one side
usage_var_harness!(c29_usage_var_l2_m0, 2, 0);
usage_var_harness!(c29_usage_var_l2_m1, 2, 1);
usage_var_harness!(c29_usage_var_l2_m3, 2, 3);
usage_var_harness!(c29_usage_var_l2_m7, 2, 7);
usage_loc_harness!(c29_usage_loc_l2_m0, 2, 0);
usage_loc_harness!(c29_usage_loc_l2_m1, 2, 1);
usage_loc_harness!(c29_usage_loc_l2_m5, 2, 5);
usage_loc_harness!(c29_usage_loc_l2_m7, 2, 7);

// Witness harness for the (possible) known finding: the null-default region only.
#[kani::proof]
#[kani::unwind(4)]
#[kani::stub(alloc::fmt::format, fmt_stub)]
#[kani::stub(<crate::ast::Type as std::clone::Clone>::clone, type_clone_stub)]
fn c29_variable_usage_null_default() {
    let var_ty = forked_type(0, 0, 2);
    let loc_ty = forked_type(0, 1, 2);
    let want = ref_usage_allowed(&var_ty, &loc_ty, 1, false);
    let def = ast::VariableDefinition {
        name: Name::new_static_unchecked("v"),
        ty: Node::new(var_ty),
        default_value: Some(Node::new(Value::Null)),
        directives: Default::default(),
    };
    let usage = ast::InputValueDefinition {
        description: None,
        name: Name::new_static_unchecked("arg"),
        ty: Node::new(loc_ty),
        default_value: None,
        directives: Default::default(),
    };
    let got = is_variable_usage_allowed(&def, &usage);
    std::mem::forget(def);
    std::mem::forget(usage);
    assert!(!want);
    assert!(got == want, "null variable default must not license a non-null location");
}

// ---------------------------------------------------------------------------------------------
// IsValidImplementationFieldType under an arbitrary subtype relation

static mut SUBTYPE: [[bool; 3]; 3] = [[false; 3]; 3];

fn idx(name: &str) -> usize {
    match name.as_bytes().first() {
        Some(b'A') => 0,
        Some(b'B') => 1,
        _ => 2,
    }
}

/// stub for Schema::is_subtype(abstract_type, maybe_subtype): an arbitrary but fixed relation
fn is_subtype_stub(_s: &crate::Schema, abstract_type: &str, maybe_subtype: &str) -> bool {
    unsafe { SUBTYPE[idx(abstract_type)][idx(maybe_subtype)] }
}

/// spec IsSubType(possibleSubType, superType) for named types under the table
fn ref_is_sub_named(sub: &Name, sup: &Name) -> bool {
    sub.as_str() == sup.as_str() || unsafe { SUBTYPE[idx(sup.as_str())][idx(sub.as_str())] }
}

/// spec IsValidImplementationFieldType(fieldType, implementedFieldType)
fn spec_impl(field: &Type, imp: &Type) -> bool {
    // 1. If fieldType is a Non-Null type: unwrap it; unwrap implementedFieldType if it is Non-Null; recurse.
    //    If fieldType is nullable, a Non-Null implementedFieldType is neither a List type (step 2) nor
    //    a type fieldType can be a sub-type of (step 3): false.
    if is_nn(imp) && !is_nn(field) {
        return false;
    }
    match (field, imp) {
        // 2. both list types: recurse on the item types
        (Type::List(f) | Type::NonNullList(f), Type::List(i) | Type::NonNullList(i)) => spec_impl(f, i),
        // 3. IsSubType(fieldType, implementedFieldType)
        (Type::Named(f) | Type::NonNullNamed(f), Type::Named(i) | Type::NonNullNamed(i)) => {
            ref_is_sub_named(f, i)
        }
        _ => false,
    }
}

fn rs_stub() -> ahash::RandomState {
    ahash::RandomState::with_seeds(1, 2, 3, 4)
}

fn empty_schema() -> crate::Schema {
    use crate::collections::IndexMap;
    crate::Schema {
        sources: Default::default(),
        schema_definition: Node::new(crate::schema::SchemaDefinition {
            description: None,
            directives: Default::default(),
            query: None,
            mutation: None,
            subscription: None,
        }),
        directive_definitions: IndexMap::with_hasher(rs_stub()),
        types: IndexMap::with_hasher(rs_stub()),
    }
}

/// Native replay has no stubs: the real `Schema::is_subtype` runs.  So when a counterexample is replayed the
/// subtype table chosen by the solver is realised as a REAL schema (three interfaces, `Y implements X` for every
/// true entry [X][Y]); under Kani this branch is dead code (`mode::PLAYBACK` is a false constant there).
fn schema_for_table() -> crate::Schema {
    if mode::PLAYBACK {
        let names = ["A", "B", "C"];
        let mut sdl = String::new();
        for y in 0..3 {
            sdl.push_str("interface ");
            sdl.push_str(names[y]);
            let mut first = true;
            for x in 0..3 {
                if unsafe { SUBTYPE[x][y] } {
                    sdl.push_str(if first { " implements " } else { " & " });
                    sdl.push_str(names[x]);
                    first = false;
                }
            }
            sdl.push_str(" { f: Int }\n");
        }
        match crate::Schema::parse(sdl, "replay.graphql") {
            Ok(s) => s,
            Err(e) => e.partial,
        }
    } else {
        empty_schema()
    }
}

fn impl_case(depth: u32, pool: u8) {
    for a in 0..3 {
        for b in 0..3 {
            unsafe { SUBTYPE[a][b] = kani::any() };
        }
    }
    let iface = any_type(depth, pool);
    let imp = any_type(depth, pool);
    let schema = schema_for_table();
    // code: (schema, interface_field_type, impl_field_type); spec: (fieldType = impl, implementedFieldType = iface)
    let got = crate::validation::interface::is_valid_implementation_field_type(&schema, &iface, &imp);
    let want = spec_impl(&imp, &iface);
    let (di, dm) = (depth_of(&iface), depth_of(&imp));
    let same_names = iface.inner_named_type().as_str() == imp.inner_named_type().as_str();
    std::mem::forget(iface);
    std::mem::forget(imp);
    std::mem::forget(schema);
    assert!(got == want);
    kani::cover!(got && !same_names && di == depth && dm == depth, "valid through the subtype relation at the deepest nesting");
    kani::cover!(!got && di == dm && !same_names, "rejected: names unrelated");
    kani::cover!(got && same_names, "valid with identical names");
}

#[kani::proof]
#[kani::unwind(5)]
#[kani::stub(alloc::fmt::format, fmt_stub)]
#[kani::stub(ahash::RandomState::new, rs_stub)]
#[kani::stub(crate::schema::Schema::is_subtype, is_subtype_stub)]
fn c29_impl_field_d2() {
    impl_case(2, 2);
}

// ---------------------------------------------------------------------------------------------
// the small wrappers the three predicates are built from
fn helpers_case(levels: u32, mask: u32) {
    let t = forked_type(levels, mask, 2);
    let nn = is_nn(&t);
    let list = matches!(t, Type::List(_) | Type::NonNullList(_));
    assert!(nn == (mask & 1 != 0) && list == (levels > 0));
    assert!(t.is_non_null() == nn);
    assert!(t.is_list() == list);
    assert!(t.is_named() == !list);
    let d = depth_of(&t);
    let inner_first = t.inner_named_type().as_str().as_bytes()[0];
    let n = t.nullable();
    assert!(!n.is_non_null());
    assert!(depth_of(&n) == d && n.inner_named_type().as_str().as_bytes()[0] == inner_first);
    assert!(n.is_list() == list);
    let m = n.non_null();
    assert!(m.is_non_null() && m.is_list() == list && depth_of(&m) == d);
    let item_depth = depth_of(m.item_type());
    assert!(item_depth == if list { d - 1 } else { d });
    std::mem::forget(m);
    kani::cover!(inner_first == b'B', "name B");
}

// every shape with nesting <= 2 (forked: 2 + 4 + 8 shapes), names symbolic
#[kani::proof]
#[kani::unwind(5)]
#[kani::stub(alloc::fmt::format, fmt_stub)]
fn c29_type_helpers() {
    helpers_case(0, 0);
    helpers_case(0, 1);
    helpers_case(1, 0);
    helpers_case(1, 1);
    helpers_case(1, 2);
    helpers_case(1, 3);
    helpers_case(2, 0);
    helpers_case(2, 1);
    helpers_case(2, 2);
    helpers_case(2, 3);
    helpers_case(2, 4);
    helpers_case(2, 5);
    helpers_case(2, 6);
    helpers_case(2, 7);
}

// vacuity twin: must FAIL (the reference is deliberately wrong: ignores list nesting)
#[kani::proof]
#[kani::unwind(5)]
#[kani::stub(alloc::fmt::format, fmt_stub)]
fn c29_twin_must_fail() {
    let a = any_type(2, 2);
    let b = any_type(2, 2);
    let got = a.is_assignable_to(&b);
    let want = a.inner_named_type().as_str() == b.inner_named_type().as_str();
    std::mem::forget(a);
    std::mem::forget(b);
    assert!(got == want);
}

#[kani::proof]
#[kani::unwind(6)]
fn c29_probe_a_boxpair() {
    let b = Box::new((1usize, forked_type(1, 1, 2)));
    let c = b.1.clone();
    std::mem::forget(b);
    std::mem::forget(c);
}

// ---- bounded structural copy used as a stub for the derived `<Type as Clone>::clone` ----------------
// The derived clone recurses through `Box<Type>::clone`; on a `Type` that lives inside a `Node` (heap) the
// symbolic executor cannot fold the list-vs-named discriminant and unrolls the recursion on infeasible
// shapes until the unwinding bound, which did not finish in 40 min.  This copy is the same structural
// clone written without recursion for nesting <= 2; anything deeper hits a checked `unreachable!`.
fn clone_leaf(t: &Type) -> Type {
    match t {
        Type::Named(n) => Type::Named(n.clone()),
        Type::NonNullNamed(n) => Type::NonNullNamed(n.clone()),
        _ => unreachable!("type nested deeper than the harness bound"),
    }
}

fn clone_d1(t: &Type) -> Type {
    match t {
        Type::Named(n) => Type::Named(n.clone()),
        Type::NonNullNamed(n) => Type::NonNullNamed(n.clone()),
        Type::List(b) => Type::List(Box::new(clone_leaf(b))),
        Type::NonNullList(b) => Type::NonNullList(Box::new(clone_leaf(b))),
    }
}

fn type_clone_stub(t: &Type) -> Type {
    match t {
        Type::Named(n) => Type::Named(n.clone()),
        Type::NonNullNamed(n) => Type::NonNullNamed(n.clone()),
        Type::List(b) => Type::List(Box::new(clone_d1(b))),
        Type::NonNullList(b) => Type::NonNullList(Box::new(clone_d1(b))),
    }
}

