// C23 — schema coordinates: parse / print.  Child module of crate::coordinate.
//
//   from_str(s) is Ok  <=>  s has one of the forms  Name | Name.Name | Name.Name(Name:) | @Name | @Name(Name:)
//   the parsed variant and every name component are the ones the reference split yields
//   to_string(parse(s)) == s            (through a fixed-buffer fmt::Write sink)
//   parse(to_string(c)) == c            for coordinates built from names of <= 2 bytes
#![allow(dead_code)]
use super::*;
use std::fmt::Write as _;
use std::str::FromStr;

fn fmt_stub(_args: std::fmt::Arguments<'_>) -> String {
    String::new()
}

/// `str::split_once(char)` searches with core's memchr, which takes a word-at-a-time path for haystacks of
/// >= 16 bytes.  Every haystack here is shorter, so that path is dead; the stub turns "dead" into a checked
/// assertion instead of letting the symbolic executor unroll pointer-alignment arithmetic it can never reach.
fn memchr_aligned_stub(_x: u8, text: &[u8]) -> Option<usize> {
    assert!(text.len() < 16, "memchr_aligned reached with a short haystack");
    None
}

// ---- reference ---------------------------------------------------------------------------------
fn ref_name(s: &[u8]) -> bool {
    if s.is_empty() {
        return false;
    }
    let start = |b: u8| b == b'_' || (b >= b'A' && b <= b'Z') || (b >= b'a' && b <= b'z');
    if !start(s[0]) {
        return false;
    }
    let mut i = 1;
    while i < s.len() {
        if !(start(s[i]) || (s[i] >= b'0' && s[i] <= b'9')) {
            return false;
        }
        i += 1;
    }
    true
}

#[derive(Clone, Copy, PartialEq, Eq)]
enum Kind {
    Type,
    TypeAttribute,
    FieldArgument,
    Directive,
    DirectiveArgument,
}

/// (kind, [(start,end); 3]) — unused spans are (0,0)
fn ref_parse(s: &[u8]) -> Option<(Kind, [(usize, usize); 3])> {
    let n = s.len();
    let find = |from: usize, c: u8| -> Option<usize> {
        let mut i = from;
        while i < n {
            if s[i] == c {
                return Some(i);
            }
            i += 1;
        }
        None
    };
    // optional "(Name:)" suffix
    let (body_end, arg) = if n >= 2 && s[n - 1] == b')' && s[n - 2] == b':' {
        match find(0, b'(') {
            Some(p) if p + 1 <= n - 2 => (p, Some((p + 1, n - 2))),
            _ => return None,
        }
    } else {
        (n, None)
    };
    if let Some((a, b)) = arg {
        if !ref_name(&s[a..b]) {
            return None;
        }
    }
    if body_end > 0 && s[0] == b'@' {
        if !ref_name(&s[1..body_end]) {
            return None;
        }
        return Some(match arg {
            Some(a) => (Kind::DirectiveArgument, [(1, body_end), a, (0, 0)]),
            None => (Kind::Directive, [(1, body_end), (0, 0), (0, 0)]),
        });
    }
    match find(0, b'.') {
        Some(d) if d < body_end => {
            if !ref_name(&s[..d]) || !ref_name(&s[d + 1..body_end]) {
                return None;
            }
            Some(match arg {
                Some(a) => (Kind::FieldArgument, [(0, d), (d + 1, body_end), a]),
                None => (Kind::TypeAttribute, [(0, d), (d + 1, body_end), (0, 0)]),
            })
        }
        _ => {
            if arg.is_some() || !ref_name(&s[..body_end]) {
                return None;
            }
            Some((Kind::Type, [(0, body_end), (0, 0), (0, 0)]))
        }
    }
}

fn in_alphabet(b: u8) -> bool {
    matches!(b, b'a' | b'Z' | b'_' | b'0' | b'.' | b'(' | b')' | b':' | b'@' | b' ' | 0xC3 | 0xA9)
}

macro_rules! sym_str {
    ($buf:ident, $len:ident, $n:expr) => {
        let $buf: [u8; $n] = kani::any();
        let $len: usize = kani::any();
        kani::assume($len <= $n);
        let mut i = 0;
        while i < $n {
            if i < $len {
                kani::assume(in_alphabet($buf[i]));
            }
            i += 1;
        }
    };
}

fn name_is(n: &Name, s: &[u8], span: (usize, usize)) -> bool {
    let t = n.as_str().as_bytes();
    if t.len() != span.1 - span.0 {
        return false;
    }
    let mut i = 0;
    while i < t.len() {
        if t[i] != s[span.0 + i] {
            return false;
        }
        i += 1;
    }
    true
}

fn matches_ref(c: &SchemaCoordinate, s: &[u8], k: Kind, sp: [(usize, usize); 3]) -> bool {
    match c {
        SchemaCoordinate::Type(t) => k == Kind::Type && name_is(&t.ty, s, sp[0]),
        SchemaCoordinate::TypeAttribute(t) => {
            k == Kind::TypeAttribute && name_is(&t.ty, s, sp[0]) && name_is(&t.attribute, s, sp[1])
        }
        SchemaCoordinate::FieldArgument(t) => {
            k == Kind::FieldArgument
                && name_is(&t.ty, s, sp[0])
                && name_is(&t.field, s, sp[1])
                && name_is(&t.argument, s, sp[2])
        }
        SchemaCoordinate::Directive(t) => k == Kind::Directive && name_is(&t.directive, s, sp[0]),
        SchemaCoordinate::DirectiveArgument(t) => {
            k == Kind::DirectiveArgument && name_is(&t.directive, s, sp[0]) && name_is(&t.argument, s, sp[1])
        }
    }
}

/// fixed-buffer sink: no String growth in the formula
struct Sink {
    buf: [u8; 16],
    len: usize,
    overflow: bool,
}

impl std::fmt::Write for Sink {
    fn write_str(&mut self, s: &str) -> std::fmt::Result {
        let b = s.as_bytes();
        let mut i = 0;
        while i < b.len() {
            if self.len < 16 {
                self.buf[self.len] = b[i];
                self.len += 1;
            } else {
                self.overflow = true;
            }
            i += 1;
        }
        Ok(())
    }
}

macro_rules! parse_harness {
    ($name:ident, $n:expr, $unwind:expr) => {
        #[kani::proof]
        #[kani::unwind($unwind)]
        #[kani::stub(alloc::fmt::format, fmt_stub)]
#[kani::stub(core::slice::memchr::memchr_aligned, memchr_aligned_stub)]
        fn $name() {
            sym_str!(buf, len, $n);
            if let Ok(s) = std::str::from_utf8(&buf[..len]) {
                let want = ref_parse(&buf[..len]);
                let got = SchemaCoordinate::from_str(s);
                let ok = got.is_ok();
                let same = match (&got, want) {
                    (Ok(c), Some((k, sp))) => matches_ref(c, &buf[..len], k, sp),
                    (Err(_), None) => true,
                    _ => false,
                };
                let kind = want.map(|w| w.0);
                std::mem::forget(got);
                assert!(ok == want.is_some());
                assert!(same);
                kani::cover!(kind == Some(Kind::Type) && len == $n, "Type of maximal length");
                kani::cover!(kind == Some(Kind::TypeAttribute), "Type.attribute");
                kani::cover!(kind == Some(Kind::Directive), "@directive");
                kani::cover!($n < 6 || kind == Some(Kind::DirectiveArgument), "@directive(arg:) (needs >= 6 bytes)");
                kani::cover!(!ok && len >= 3 && buf[0] == b'@', "rejected directive-like string");
            }
        }
    };
}
parse_harness!(c23_parse_n5, 5, 8);
parse_harness!(c23_parse_n6, 6, 9);
parse_harness!(c23_parse_n4, 4, 7);

// the shortest FieldArgument is 7 bytes: a.a(a:)
#[kani::proof]
#[kani::unwind(11)]
#[kani::stub(alloc::fmt::format, fmt_stub)]
#[kani::stub(core::slice::memchr::memchr_aligned, memchr_aligned_stub)]
fn c23_parse_field_argument_n8() {
    sym_str!(buf, len, 8);
    kani::assume(len >= 7 && buf[len - 1] == b')' && buf[len - 2] == b':');
    if let Ok(s) = std::str::from_utf8(&buf[..len]) {
        let want = ref_parse(&buf[..len]);
        let got = SchemaCoordinate::from_str(s);
        let ok = got.is_ok();
        let same = match (&got, want) {
            (Ok(c), Some((k, sp))) => matches_ref(c, &buf[..len], k, sp),
            (Err(_), None) => true,
            _ => false,
        };
        let kind = want.map(|w| w.0);
        std::mem::forget(got);
        assert!(ok == want.is_some());
        assert!(same);
        kani::cover!(kind == Some(Kind::FieldArgument), "Type.field(arg:)");
        kani::cover!(kind == Some(Kind::DirectiveArgument), "@dir(arg:)");
        kani::cover!(!ok, "rejected");
    }
}

// each per-kind FromStr accepts exactly its own form
#[kani::proof]
#[kani::unwind(9)]
#[kani::stub(alloc::fmt::format, fmt_stub)]
#[kani::stub(core::slice::memchr::memchr_aligned, memchr_aligned_stub)]
fn c23_parse_per_kind_n6() {
    sym_str!(buf, len, 6);
    if let Ok(s) = std::str::from_utf8(&buf[..len]) {
        let kind = ref_parse(&buf[..len]).map(|w| w.0);
        let which: u8 = kani::any();
        kani::assume(which < 5);
        let (ok, want) = match which {
            0 => {
                let r = TypeCoordinate::from_str(s);
                let ok = r.is_ok();
                std::mem::forget(r);
                (ok, kind == Some(Kind::Type))
            }
            1 => {
                let r = TypeAttributeCoordinate::from_str(s);
                let ok = r.is_ok();
                std::mem::forget(r);
                (ok, kind == Some(Kind::TypeAttribute))
            }
            2 => {
                let r = FieldArgumentCoordinate::from_str(s);
                let ok = r.is_ok();
                std::mem::forget(r);
                (ok, kind == Some(Kind::FieldArgument))
            }
            3 => {
                let r = DirectiveCoordinate::from_str(s);
                let ok = r.is_ok();
                std::mem::forget(r);
                (ok, kind == Some(Kind::Directive))
            }
            _ => {
                let r = DirectiveArgumentCoordinate::from_str(s);
                let ok = r.is_ok();
                std::mem::forget(r);
                (ok, kind == Some(Kind::DirectiveArgument))
            }
        };
        assert!(ok == want);
        kani::cover!(ok && which == 1, "TypeAttributeCoordinate accepted");
        kani::cover!(ok && which == 4, "DirectiveArgumentCoordinate accepted");
        kani::cover!(!ok && kind.is_some(), "a valid coordinate of another kind rejected by this parser");
    }
}

// print(parse(s)) == s
macro_rules! print_of_parse_harness {
    ($name:ident, $n:expr, $unwind:expr) => {
#[kani::proof]
#[kani::unwind($unwind)]
#[kani::stub(alloc::fmt::format, fmt_stub)]
#[kani::stub(core::slice::memchr::memchr_aligned, memchr_aligned_stub)]
fn $name() {
    sym_str!(buf, len, $n);
    if let Ok(s) = std::str::from_utf8(&buf[..len]) {
        if let Ok(c) = SchemaCoordinate::from_str(s) {
            let mut sink = Sink { buf: [0; 16], len: 0, overflow: false };
            let r = write!(sink, "{}", c);
            std::mem::forget(c);
            assert!(r.is_ok() && !sink.overflow);
            assert!(sink.len == len);
            let mut i = 0;
            while i < len {
                assert!(sink.buf[i] == buf[i]);
                i += 1;
            }
            kani::cover!(len == $n, "printed a coordinate of maximal length");
            kani::cover!(len >= 2 && buf[0] == b'@', "printed a directive coordinate");
        }
    }
}
    };
}
print_of_parse_harness!(c23_print_of_parse_n3, 3, 6);
print_of_parse_harness!(c23_print_of_parse_n5, 5, 8);

// parse(print(c)) == c for coordinates over names of <= 2 bytes
fn any_small_name() -> Name {
    if kani::any() {
        Name::new_static_unchecked("a")
    } else {
        Name::new_static_unchecked("Z0")
    }
}

// one harness per kind, each through that kind's own parser (the five-way dispatch on a 10-byte text
// exhausted 22 GB)
macro_rules! parse_of_print_harness {
    ($name:ident, $ty:ty, $unwind:expr, $maxlen:expr, $value:expr) => {
        #[kani::proof]
        #[kani::unwind($unwind)]
        #[kani::stub(alloc::fmt::format, fmt_stub)]
        #[kani::stub(core::slice::memchr::memchr_aligned, memchr_aligned_stub)]
        fn $name() {
            let c: $ty = $value;
            let mut sink = Sink { buf: [0; 16], len: 0, overflow: false };
            let r = write!(sink, "{}", c);
            assert!(r.is_ok() && !sink.overflow);
            let text = unsafe { std::str::from_utf8_unchecked(&sink.buf[..sink.len]) };
            let back = <$ty>::from_str(text);
            let same = matches!(&back, Ok(b) if *b == c);
            let n = sink.len;
            std::mem::forget(back);
            std::mem::forget(c);
            assert!(same);
            kani::cover!(n == $maxlen, "longest text of this kind");
            kani::cover!(n < $maxlen, "shorter text of this kind");
        }
    };
}
parse_of_print_harness!(c23_parse_of_print_type, TypeCoordinate, 5, 2, TypeCoordinate { ty: any_small_name() });
parse_of_print_harness!(c23_parse_of_print_type_attribute, TypeAttributeCoordinate, 8, 5,
    TypeAttributeCoordinate { ty: any_small_name(), attribute: any_small_name() });
parse_of_print_harness!(c23_parse_of_print_directive, DirectiveCoordinate, 6, 3, DirectiveCoordinate { directive: any_small_name() });
parse_of_print_harness!(c23_parse_of_print_directive_argument, DirectiveArgumentCoordinate, 11, 8,
    DirectiveArgumentCoordinate { directive: any_small_name(), argument: any_small_name() });
parse_of_print_harness!(c23_parse_of_print_field_argument, FieldArgumentCoordinate, 13, 10,
    FieldArgumentCoordinate { ty: any_small_name(), field: any_small_name(), argument: any_small_name() });

// vacuity twin: must FAIL (claims '@' never starts a valid directive coordinate)
#[kani::proof]
#[kani::unwind(6)]
#[kani::stub(alloc::fmt::format, fmt_stub)]
#[kani::stub(core::slice::memchr::memchr_aligned, memchr_aligned_stub)]
fn c23_twin_must_fail() {
    sym_str!(buf, len, 3);
    if let Ok(s) = std::str::from_utf8(&buf[..len]) {
        let r = DirectiveCoordinate::from_str(s);
        let ok = r.is_ok();
        std::mem::forget(r);
        assert!(!ok);
    }
}

// ---- per-kind parsers on their own (much smaller formulas than the five-way dispatch) ------------
macro_rules! kind_harness {
    ($name:ident, $ty:ty, $kind:expr, $n:expr, $unwind:expr, $min:expr) => {
        #[kani::proof]
        #[kani::unwind($unwind)]
        #[kani::stub(alloc::fmt::format, fmt_stub)]
        #[kani::stub(core::slice::memchr::memchr_aligned, memchr_aligned_stub)]
        fn $name() {
            sym_str!(buf, len, $n);
            kani::assume(len >= $min);
            if let Ok(s) = std::str::from_utf8(&buf[..len]) {
                let kind = ref_parse(&buf[..len]).map(|w| w.0);
                let r = <$ty>::from_str(s);
                let ok = r.is_ok();
                std::mem::forget(r);
                assert!(ok == (kind == Some($kind)));
                kani::cover!(ok && len == $n, "accepted at maximal length");
                kani::cover!(!ok && kind.is_some(), "valid coordinate of another kind rejected");
                kani::cover!(!ok && kind.is_none(), "malformed string rejected");
            }
        }
    };
}
kind_harness!(c23_kind_type_n3, TypeCoordinate, Kind::Type, 3, 6, 0);
kind_harness!(c23_kind_type_attribute_n4, TypeAttributeCoordinate, Kind::TypeAttribute, 4, 7, 0);
kind_harness!(c23_kind_directive_n4, DirectiveCoordinate, Kind::Directive, 4, 7, 0);
kind_harness!(c23_kind_directive_argument_n7, DirectiveArgumentCoordinate, Kind::DirectiveArgument, 7, 10, 5);
kind_harness!(c23_kind_field_argument_n8, FieldArgumentCoordinate, Kind::FieldArgument, 8, 11, 6);
kind_harness!(c23_kind_type_n6, TypeCoordinate, Kind::Type, 6, 9, 0);
kind_harness!(c23_kind_type_n8, TypeCoordinate, Kind::Type, 8, 11, 0);
kind_harness!(c23_kind_type_attribute_n8, TypeAttributeCoordinate, Kind::TypeAttribute, 8, 11, 0);
kind_harness!(c23_kind_directive_n8, DirectiveCoordinate, Kind::Directive, 8, 11, 0);
kind_harness!(c23_kind_directive_argument_n9, DirectiveArgumentCoordinate, Kind::DirectiveArgument, 9, 12, 5);
kind_harness!(c23_kind_field_argument_n10, FieldArgumentCoordinate, Kind::FieldArgument, 10, 13, 6);
kind_harness!(c23_kind_type_attribute_n6, TypeAttributeCoordinate, Kind::TypeAttribute, 6, 9, 0);
kind_harness!(c23_kind_directive_n6, DirectiveCoordinate, Kind::Directive, 6, 9, 0);
parse_harness!(c23_parse_n2, 2, 5);
parse_harness!(c23_parse_n3, 3, 6);
