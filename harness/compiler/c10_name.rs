// C10 (names) — child module of crate::name.
//
//   Name::is_valid_syntax(s) <=> s in [_A-Za-z][_0-9A-Za-z]*     for every valid-UTF-8 byte string <= N bytes
//   Name::new / new_static / TryFrom<&str|String|&String|Arc<str>> / serde Deserialize
//       succeed exactly when is_valid_syntax does, and the resulting text equals the input
#![allow(dead_code)]
use super::*;

fn fmt_stub(_args: std::fmt::Arguments<'_>) -> String {
    String::new()
}

pub(super) fn ref_name(s: &[u8]) -> bool {
    if s.is_empty() {
        return false;
    }
    let start = |b: u8| b == b'_' || (b >= b'A' && b <= b'Z') || (b >= b'a' && b <= b'z');
    let cont = |b: u8| start(b) || (b >= b'0' && b <= b'9');
    if !start(s[0]) {
        return false;
    }
    let mut i = 1;
    while i < s.len() {
        if !cont(s[i]) {
            return false;
        }
        i += 1;
    }
    true
}

macro_rules! name_syntax_harness {
    ($name:ident, $n:expr, $unwind:expr) => {
        #[kani::proof]
        #[kani::unwind($unwind)]
        fn $name() {
            let bytes: [u8; $n] = kani::any();
            let len: usize = kani::any();
            kani::assume(len <= $n);
            if let Ok(s) = std::str::from_utf8(&bytes[..len]) {
                let want = ref_name(&bytes[..len]);
                let got = Name::is_valid_syntax(s);
                assert!(got == want);
                kani::cover!(got && len == $n, "valid name of maximal length");
                kani::cover!(!got && len >= 2 && bytes[0] >= 0xC2, "non-ASCII letter rejected");
                kani::cover!(!got && len >= 1 && bytes[0] >= b'0' && bytes[0] <= b'9', "leading digit rejected");
                kani::cover!(len == 0, "empty string");
            }
        }
    };
}
name_syntax_harness!(c10_name_syntax_n4, 4, 7);
name_syntax_harness!(c10_name_syntax_n6, 6, 10);
name_syntax_harness!(c10_name_syntax_n8, 8, 12);

fn text_is(n: &Name, bytes: &[u8]) -> bool {
    let t = n.as_str().as_bytes();
    if t.len() != bytes.len() {
        return false;
    }
    let mut i = 0;
    while i < bytes.len() {
        if t[i] != bytes[i] {
            return false;
        }
        i += 1;
    }
    true
}

// Unicode property tables (char::is_alphabetic / is_numeric / is_alphanumeric on non-ASCII characters) are
// skip-search loops over large tables; unchanged code never calls them, but a constructor that starts to
// (e.g. `c.is_alphanumeric()` instead of the ASCII rule) would otherwise only produce an unwinding failure.
// The constructor harnesses therefore range over ASCII plus ONE non-ASCII letter, U+00E9, and the two tables
// are replaced by their exact value on that domain.
fn alphabetic_stub(c: char) -> bool {
    c as u32 == 0xE9
}
fn numeric_stub(_c: char) -> bool {
    false
}

fn ctor_domain(bytes: &[u8; 3], len: usize) -> bool {
    let mut i = 0;
    let mut ok = true;
    while i < 3 {
        if i < len {
            ok &= bytes[i] < 0x80 || bytes[i] == 0xC3 || bytes[i] == 0xA9;
        }
        i += 1;
    }
    ok
}

// every constructor funnels through the same syntax check and keeps the text
macro_rules! ctor_harness {
    ($name:ident, $ctor:expr) => {
        #[kani::proof]
        #[kani::unwind(6)]
        #[kani::stub(alloc::fmt::format, fmt_stub)]
        #[kani::stub(core::unicode::unicode_data::alphabetic::lookup, alphabetic_stub)]
        #[kani::stub(core::unicode::unicode_data::n::lookup, numeric_stub)]
        fn $name() {
            let bytes: [u8; 3] = kani::any();
            let len: usize = kani::any();
            kani::assume(len <= 3 && ctor_domain(&bytes, len));
            if let Ok(s) = std::str::from_utf8(&bytes[..len]) {
                let want = ref_name(&bytes[..len]);
                let f: fn(&str) -> Result<Name, InvalidNameError> = $ctor;
                let r = f(s);
                let ok = r.is_ok();
                let same = match &r {
                    Ok(n) => text_is(n, &bytes[..len]) && n.location().is_none(),
                    Err(e) => e.name.len() == len && e.location.is_none(),
                };
                std::mem::forget(r);
                assert!(ok == want);
                assert!(same);
                kani::cover!(ok && len == 3, "accepted");
                kani::cover!(!ok && len == 3, "rejected");
                kani::cover!(!ok && len == 3 && bytes[1] == 0xC3, "rejected: ASCII start followed by a non-ASCII letter");
            }
        }
    };
}

ctor_harness!(c10_name_new, |s| Name::new(s));
ctor_harness!(c10_name_new_static, |s| {
    // the harness buffer outlives every use of the Name (it is forgotten, never dropped)
    let st: &'static str = unsafe { std::mem::transmute::<&str, &'static str>(s) };
    Name::new_static(st)
});
ctor_harness!(c10_name_try_from_str, |s| Name::try_from(s));
ctor_harness!(c10_name_try_from_string, |s| Name::try_from(s.to_owned()));
ctor_harness!(c10_name_try_from_string_ref, |s| {
    let owned = s.to_owned();
    let r = Name::try_from(&owned);
    std::mem::forget(owned);
    r
});
ctor_harness!(c10_name_try_from_arc, |s| Name::try_from(Arc::<str>::from(s)));

use serde::de::IntoDeserializer;
use serde::Deserialize;
type DeErr = serde::de::value::Error;

#[kani::proof]
#[kani::unwind(6)]
#[kani::stub(alloc::fmt::format, fmt_stub)]
#[kani::stub(core::unicode::unicode_data::alphabetic::lookup, alphabetic_stub)]
#[kani::stub(core::unicode::unicode_data::n::lookup, numeric_stub)]
fn c10_name_deserialize() {
    let bytes: [u8; 3] = kani::any();
    let len: usize = kani::any();
    kani::assume(len <= 3 && ctor_domain(&bytes, len));
    if let Ok(s) = std::str::from_utf8(&bytes[..len]) {
        let want = ref_name(&bytes[..len]);
        let de: serde::de::value::StrDeserializer<'_, DeErr> = s.into_deserializer();
        let r = Name::deserialize(de);
        let ok = r.is_ok();
        let same = match &r {
            Ok(n) => text_is(n, &bytes[..len]),
            Err(_) => true,
        };
        std::mem::forget(r);
        assert!(ok == want);
        assert!(same);
        kani::cover!(ok && len == 3, "accepted");
        kani::cover!(!ok && len == 3, "rejected");
    }
}

// vacuity twin: must FAIL (reference that forgets the NameStart rule)
#[kani::proof]
#[kani::unwind(7)]
fn c10_name_twin_must_fail() {
    let bytes: [u8; 3] = kani::any();
    let len: usize = kani::any();
    kani::assume(len <= 3);
    if let Ok(s) = std::str::from_utf8(&bytes[..len]) {
        let cont = |b: u8| b == b'_' || b.is_ascii_alphanumeric();
        let want = len > 0 && bytes[..len].iter().all(|b| cont(*b));
        assert!(Name::is_valid_syntax(s) == want);
    }
}
