// C31 (packing part) — child module of crate::parser, so private fields/consts are reachable.
//
// Full-domain claims, decided by Kani/CBMC on the compiled code:
//   for every id in [1, 2^63) and both tags:
//     pack(tag,id).tag() == tag, pack(tag,id).file_id() == id, packed word non-zero,
//     packed words of different (tag,id) differ (injective)
//   BUILT_IN != NONE, both below INITIAL, none carries the tag bit
//   FileId::new() from an arbitrary reachable counter value (sequential; schedules are engine E2):
//     the id is never 0/1/2 and never has bit 63; two consecutive ids differ.
use super::*;

fn any_file_id() -> FileId {
    let raw: u64 = kani::any();
    kani::assume(raw != 0 && raw & TAG == 0);
    FileId { id: NonZeroU64::new(raw).unwrap() }
}

#[kani::proof]
fn c31_pack_roundtrip() {
    let id = any_file_id();
    let tag: bool = kani::any();
    let packed = TaggedFileId::pack(tag, id);
    assert!(packed.tag_and_id.get() != 0);
    assert!(packed.tag() == tag);
    assert!(packed.file_id() == id);
    assert!(packed.file_id().id.get() == id.id.get());
    kani::cover!(tag && id.id.get() == ID_MASK, "largest id, tagged");
    kani::cover!(!tag && id.id.get() == 1, "smallest id, untagged");
}

#[kani::proof]
fn c31_pack_injective() {
    let a = any_file_id();
    let b = any_file_id();
    let ta: bool = kani::any();
    let tb: bool = kani::any();
    let pa = TaggedFileId::pack(ta, a);
    let pb = TaggedFileId::pack(tb, b);
    if pa.tag_and_id == pb.tag_and_id {
        assert!(ta == tb && a == b);
    }
    kani::cover!(pa.tag_and_id == pb.tag_and_id, "equal packed words reachable");
    kani::cover!(pa.tag_and_id != pb.tag_and_id, "different packed words reachable");
}

#[kani::proof]
fn c31_reserved_ids() {
    // the two reserved ids are distinct, carry no tag bit, and lie below the first id ever handed out
    // (their numeric values are an implementation choice and are not pinned)
    let (b, n) = (FileId::BUILT_IN.id.get(), FileId::NONE.id.get());
    assert!(FileId::BUILT_IN != FileId::NONE);
    assert!(b & TAG == 0 && n & TAG == 0);
    assert!(INITIAL > b && INITIAL > n && INITIAL & TAG == 0);
    assert!(TAG == 1u64 << 63 && ID_MASK == !TAG);
    kani::cover!(true, "reached");
}

// One call from ANY counter value (wrapped ones included; 0 excluded: no history reaches it, the counter starts
// at 3 and restarts at 3): the id handed out is never a reserved one and never carries the tag bit.
// (Which id it is, and what the counter is afterwards, is an implementation choice and is not asserted.)
#[kani::proof]
#[kani::unwind(3)]
fn c31_new_sequential() {
    let start: u64 = kani::any();
    kani::assume(start != 0);
    // reachable counter values: [3, 2^63 + small]; 1 and 2 are never stored in the counter
    kani::assume(start >= INITIAL && start <= TAG + (1u64 << 32));
    NEXT.store(start, atomic::Ordering::SeqCst);
    let a = FileId::new();
    let va = a.id.get();
    assert!(va & TAG == 0);
    assert!(a != FileId::BUILT_IN && a != FileId::NONE);
    kani::cover!(start & TAG != 0, "wrap branch taken");
    kani::cover!(start == INITIAL, "fresh counter");
}

// Two consecutive calls from any reachable, non-wrapping counter value give distinct, non-reserved ids.
#[kani::proof]
#[kani::unwind(3)]
fn c31_new_twice_distinct() {
    let start: u64 = kani::any();
    kani::assume(start >= INITIAL);
    // no wrap inside the window (the property's own exclusion)
    kani::assume(start < ID_MASK);
    NEXT.store(start, atomic::Ordering::SeqCst);
    let a = FileId::new();
    let b = FileId::new();
    assert!(a != b);
    assert!(a != FileId::BUILT_IN && a != FileId::NONE);
    assert!(b != FileId::BUILT_IN && b != FileId::NONE);
    assert!(a.id.get() & TAG == 0 && b.id.get() & TAG == 0);
    kani::cover!(start == ID_MASK - 1, "last pair before the wrap");
}

// after reset() (documented: "back to its initial value", used for reproducible test output) fresh ids are
// again distinct from the reserved ones
#[kani::proof]
#[kani::unwind(3)]
fn c31_reset() {
    let start: u64 = kani::any();
    NEXT.store(start, atomic::Ordering::SeqCst);
    FileId::reset();
    let a = FileId::new();
    let b = FileId::new();
    assert!(a != b);
    assert!(a != FileId::BUILT_IN && a != FileId::NONE && b != FileId::BUILT_IN && b != FileId::NONE);
    kani::cover!(true, "reached");
}

// vacuity twin: must FAIL
#[kani::proof]
fn c31_twin_must_fail() {
    let id = any_file_id();
    let packed = TaggedFileId::pack(kani::any(), id);
    assert!(packed.file_id() != id);
}
