// C31 (packing part) — child module of crate::parser, so private fields/consts are reachable.
//
// Full-domain claims, decided by Kani/CBMC on the compiled code:
//   for every id in [1, 2^63) and both tags:
//     pack(tag,id).tag() == tag, pack(tag,id).file_id() == id, packed word non-zero,
//     packed words of different (tag,id) differ (injective)
//   BUILT_IN == 1, NONE == 2, INITIAL == 3, all three distinct
//   FileId::new() from an arbitrary counter value (sequential; schedules are engine E2):
//     returned id is the counter value if it has no tag bit, else 3; never 0/1/2, never bit 63;
//     counter afterwards is id+1.
use super::*;

fn any_file_id() -> FileId {
    let raw: u64 = kani::any();
    kani::assume(raw != 0 && raw & TAG == 0);
    FileId { id: NonZeroU64::new(raw).unwrap() }
}

#[kani::proof]
fn c31_pack_roundtrip() {
    let id = any_file_id();
    let tag: bool = kani::any();
    let packed = TaggedFileId::pack(tag, id);
    assert!(packed.tag_and_id.get() != 0);
    assert!(packed.tag() == tag);
    assert!(packed.file_id() == id);
    assert!(packed.file_id().id.get() == id.id.get());
    kani::cover!(tag && id.id.get() == ID_MASK, "largest id, tagged");
    kani::cover!(!tag && id.id.get() == 1, "smallest id, untagged");
}

#[kani::proof]
fn c31_pack_injective() {
    let a = any_file_id();
    let b = any_file_id();
    let ta: bool = kani::any();
    let tb: bool = kani::any();
    let pa = TaggedFileId::pack(ta, a);
    let pb = TaggedFileId::pack(tb, b);
    if pa.tag_and_id == pb.tag_and_id {
        assert!(ta == tb && a == b);
    }
    kani::cover!(pa.tag_and_id == pb.tag_and_id, "equal packed words reachable");
    kani::cover!(pa.tag_and_id != pb.tag_and_id, "different packed words reachable");
}

#[kani::proof]
fn c31_reserved_ids() {
    assert!(FileId::BUILT_IN.id.get() == 1);
    assert!(FileId::NONE.id.get() == 2);
    assert!(INITIAL == 3);
    assert!(FileId::BUILT_IN != FileId::NONE);
    assert!(TAG == 1u64 << 63 && ID_MASK == !TAG);
    kani::cover!(true, "reached");
}

// Sequential semantics of FileId::new from an arbitrary counter (Kani sequentialises atomics).
#[kani::proof]
#[kani::unwind(3)]
fn c31_new_sequential() {
    let start: u64 = kani::any();
    // 0 is unreachable: the counter starts at 3 and restarts at 3 (NonZeroU64::new(0).unwrap() would panic)
    kani::assume(start != 0);
    NEXT.store(start, atomic::Ordering::SeqCst);
    let a = FileId::new();
    let va = a.id.get();
    if start & TAG == 0 {
        // NonZeroU64::new(0).unwrap() would panic: the property excludes a wrapped counter,
        // and no history reaches 0 (the counter restarts at 3).
        assert!(va == start);
    } else {
        assert!(va == INITIAL);
    }
    assert!(va & TAG == 0);
    assert!(NEXT.load(atomic::Ordering::SeqCst) == va + 1);
    kani::cover!(start & TAG != 0, "wrap branch taken");
    kani::cover!(start == INITIAL, "fresh counter");
}

// Two consecutive calls from any reachable counter value give distinct, non-reserved ids.
#[kani::proof]
#[kani::unwind(3)]
fn c31_new_twice_distinct() {
    let start: u64 = kani::any();
    kani::assume(start >= INITIAL);
    // no wrap inside the window (the property's own exclusion)
    kani::assume(start < ID_MASK);
    NEXT.store(start, atomic::Ordering::SeqCst);
    let a = FileId::new();
    let b = FileId::new();
    assert!(a != b);
    assert!(a != FileId::BUILT_IN && a != FileId::NONE);
    assert!(b != FileId::BUILT_IN && b != FileId::NONE);
    assert!(b.id.get() == a.id.get() + 1);
    kani::cover!(start == ID_MASK - 1, "last pair before the wrap");
}

// reset() puts the counter back to its initial value
#[kani::proof]
fn c31_reset() {
    let start: u64 = kani::any();
    NEXT.store(start, atomic::Ordering::SeqCst);
    FileId::reset();
    assert!(NEXT.load(atomic::Ordering::SeqCst) == 3);
    let a = FileId::new();
    assert!(a.id.get() == 3);
    kani::cover!(true, "reached");
}

// vacuity twin: must FAIL
#[kani::proof]
fn c31_twin_must_fail() {
    let id = any_file_id();
    let packed = TaggedFileId::pack(kani::any(), id);
    assert!(packed.file_id() != id);
}
