// C10 (numeric literals) — child module of crate::ast::impls (valid_syntax fns are private there).
//
//   IntValue::valid_syntax(s)   <=>  s in  -?(0|[1-9][0-9]*)
//   FloatValue::valid_syntax(s) <=>  s in  IntegerPart (Frac | Exp | Frac Exp),
//                                    Frac = '.' [0-9]+ ,  Exp = [eE] [+-]? [0-9]+
//   serde Deserialize of both accepts exactly the same strings and keeps the text
//   IntValue::from(i32): text is a valid IntValue and try_to_i32() returns the same i32
#![allow(dead_code)]
use super::*;

#[path = "kf.rs"]
mod kf;

fn fmt_stub(_args: std::fmt::Arguments<'_>) -> String {
    String::new()
}

// ---- reference grammar (byte level, no allocation) ---------------------------------------------
fn is_digit(b: u8) -> bool {
    b >= b'0' && b <= b'9'
}

/// length of the IntegerPart prefix of s, or None
fn ref_integer_part(s: &[u8]) -> Option<usize> {
    let mut i = 0;
    if i < s.len() && s[i] == b'-' {
        i += 1;
    }
    if i >= s.len() {
        return None;
    }
    if s[i] == b'0' {
        return Some(i + 1);
    }
    if !(s[i] >= b'1' && s[i] <= b'9') {
        return None;
    }
    i += 1;
    while i < s.len() && is_digit(s[i]) {
        i += 1;
    }
    Some(i)
}

pub(super) fn ref_int(s: &[u8]) -> bool {
    ref_integer_part(s) == Some(s.len())
}

pub(super) fn ref_float(s: &[u8]) -> bool {
    let Some(mut i) = ref_integer_part(s) else {
        return false;
    };
    let mut has_frac = false;
    let mut has_exp = false;
    if i < s.len() && s[i] == b'.' {
        let start = i + 1;
        i = start;
        while i < s.len() && is_digit(s[i]) {
            i += 1;
        }
        if i == start {
            return false;
        }
        has_frac = true;
    }
    if i < s.len() && (s[i] == b'e' || s[i] == b'E') {
        i += 1;
        if i < s.len() && (s[i] == b'+' || s[i] == b'-') {
            i += 1;
        }
        let start = i;
        while i < s.len() && is_digit(s[i]) {
            i += 1;
        }
        if i == start {
            return false;
        }
        has_exp = true;
    }
    i == s.len() && (has_frac || has_exp)
}

// ---- symbolic strings over a small alphabet ----------------------------------------------------
// 16-character alphabet (a `matches!`, not a table scan: no loop for the unwinder)
fn in_alphabet(b: u8) -> bool {
    matches!(
        b,
        b'0' | b'1' | b'9' | b'-' | b'+' | b'.' | b'e' | b'E' | b'a' | b'_' | b'x' | b' ' | b'"' | b'\n' | 0xC3 | 0xA9
    )
}

macro_rules! sym_str {
    ($buf:ident, $len:ident, $n:expr) => {
        let $buf: [u8; $n] = kani::any();
        let $len: usize = kani::any();
        kani::assume($len <= $n);
        let mut i = 0;
        while i < $n {
            if i < $len {
                kani::assume(in_alphabet($buf[i]));
            }
            i += 1;
        }
    };
}

fn exp_is_empty(s: &[u8]) -> bool {
    // the shape of known finding C10_EMPTY_EXPONENT: text ends with [eE][+-]?
    let n = s.len();
    if n >= 1 && (s[n - 1] == b'e' || s[n - 1] == b'E') {
        return true;
    }
    n >= 2 && (s[n - 1] == b'+' || s[n - 1] == b'-') && (s[n - 2] == b'e' || s[n - 2] == b'E')
}

macro_rules! int_syntax_harness {
    ($name:ident, $n:expr, $unwind:expr) => {
        #[kani::proof]
        #[kani::unwind($unwind)]
        #[kani::stub(alloc::fmt::format, fmt_stub)]
        fn $name() {
            sym_str!(buf, len, $n);
            if let Ok(s) = std::str::from_utf8(&buf[..len]) {
                let want = ref_int(&buf[..len]);
                let got = IntValue::valid_syntax(s);
                assert!(got == want);
                kani::cover!(got && len == $n, "valid IntValue of maximal length");
                kani::cover!(got && len >= 2 && buf[0] == b'-', "negative IntValue");
                kani::cover!(!got && len >= 2 && buf[0] == b'0', "leading zero rejected");
            }
        }
    };
}
int_syntax_harness!(c10_int_syntax_n5, 5, 8);
int_syntax_harness!(c10_int_syntax_n7, 7, 10);

macro_rules! float_syntax_harness {
    ($name:ident, $n:expr, $unwind:expr) => {
        #[kani::proof]
        #[kani::unwind($unwind)]
        #[kani::stub(alloc::fmt::format, fmt_stub)]
        fn $name() {
            sym_str!(buf, len, $n);
            if let Ok(s) = std::str::from_utf8(&buf[..len]) {
                if kf::C10_EMPTY_EXPONENT {
                    kani::assume(!exp_is_empty(&buf[..len]));
                }
                let want = ref_float(&buf[..len]);
                let got = FloatValue::valid_syntax(s);
                assert!(got == want);
                kani::cover!(got && len == $n, "valid FloatValue of maximal length");
                kani::cover!(got && len >= 4 && buf[len - 2] == b'e', "exponent form");
                kani::cover!(!got && len >= 2 && buf[len - 1] == b'.', "trailing dot rejected");
            }
        }
    };
}
float_syntax_harness!(c10_float_syntax_n4, 4, 7);
float_syntax_harness!(c10_float_syntax_n5, 5, 8);
float_syntax_harness!(c10_float_syntax_n6, 6, 9);

// witness for known finding C10_EMPTY_EXPONENT: strings that end in an exponent marker without digits
#[kani::proof]
#[kani::unwind(8)]
#[kani::stub(alloc::fmt::format, fmt_stub)]
fn c10_float_empty_exponent() {
    sym_str!(buf, len, 4);
    if let Ok(s) = std::str::from_utf8(&buf[..len]) {
        kani::assume(exp_is_empty(&buf[..len]));
        assert!(!ref_float(&buf[..len]));
        assert!(!FloatValue::valid_syntax(s), "FloatValue with an empty exponent accepted");
    }
}

// ---- serde visitors funnel through valid_syntax and keep the text --------------------------------
use serde::de::IntoDeserializer;
use serde::Deserialize;
type DeErr = serde::de::value::Error;

#[kani::proof]
#[kani::unwind(6)]
#[kani::stub(alloc::fmt::format, fmt_stub)]
fn c10_int_deserialize_n3() {
    sym_str!(buf, len, 3);
    if let Ok(s) = std::str::from_utf8(&buf[..len]) {
        let want = ref_int(&buf[..len]);
        let de: serde::de::value::StrDeserializer<'_, DeErr> = s.into_deserializer();
        let r = IntValue::deserialize(de);
        let ok = r.is_ok();
        let same = match &r {
            Ok(v) => v.as_str().len() == len && v.as_str().as_bytes()[0] == buf[0],
            Err(_) => true,
        };
        std::mem::forget(r);
        assert!(ok == want);
        assert!(same);
        kani::cover!(ok && len == 3, "accepted");
        kani::cover!(!ok && len == 3, "rejected");
    }
}

#[kani::proof]
#[kani::unwind(6)]
#[kani::stub(alloc::fmt::format, fmt_stub)]
fn c10_float_deserialize_n3() {
    sym_str!(buf, len, 3);
    if let Ok(s) = std::str::from_utf8(&buf[..len]) {
        if kf::C10_EMPTY_EXPONENT {
            kani::assume(!exp_is_empty(&buf[..len]));
        }
        let want = ref_float(&buf[..len]);
        let de: serde::de::value::StrDeserializer<'_, DeErr> = s.into_deserializer();
        let r = FloatValue::deserialize(de);
        let ok = r.is_ok();
        let same = match &r {
            Ok(v) => v.as_str().len() == len && v.as_str().as_bytes()[0] == buf[0],
            Err(_) => true,
        };
        std::mem::forget(r);
        assert!(ok == want);
        assert!(same);
        kani::cover!(ok && len == 3, "accepted");
        kani::cover!(!ok && len == 3, "rejected");
    }
}

// ---- i32 -> IntValue -> i32 ------------------------------------------------------------------------
fn i32_case(i: i32) {
    let v = IntValue::from(i);
    let text = v.as_str().as_bytes();
    let n = text.len();
    let valid = ref_int(text);
    let neg = n > 0 && text[0] == b'-';
    let back = v.try_to_i32();
    let ok = matches!(back, Ok(j) if j == i);
    std::mem::forget(v);
    assert!(valid);
    assert!(neg == (i < 0));
    assert!(ok);
    kani::cover!(n == 11, "eleven characters (-2147483648..-1000000000)");
    kani::cover!(i == 0, "zero");
}

#[kani::proof]
#[kani::unwind(13)]
#[kani::stub(alloc::fmt::format, fmt_stub)]
fn c10_i32_roundtrip_edges() {
    let i: i32 = kani::any();
    let edge = i <= i32::MIN + 4096 || i >= i32::MAX - 4096 || (i >= -4096 && i <= 4096);
    kani::assume(edge);
    i32_case(i);
}

#[kani::proof]
#[kani::unwind(13)]
#[kani::stub(alloc::fmt::format, fmt_stub)]
fn c10_i32_roundtrip_all() {
    let i: i32 = kani::any();
    i32_case(i);
}

// vacuity twin: must FAIL (claims every digit string is a valid IntValue)
#[kani::proof]
#[kani::unwind(8)]
#[kani::stub(alloc::fmt::format, fmt_stub)]
fn c10_num_twin_must_fail() {
    sym_str!(buf, len, 3);
    if let Ok(s) = std::str::from_utf8(&buf[..len]) {
        let all_digits = len > 0 && buf[..len].iter().all(|b| is_digit(*b));
        assert!(IntValue::valid_syntax(s) == all_digits);
    }
}

// the extreme values on their own (a much smaller formula than the ±4096 edge ranges)
#[kani::proof]
#[kani::unwind(13)]
#[kani::stub(alloc::fmt::format, fmt_stub)]
fn c10_i32_extremes() {
    let k: u8 = kani::any();
    kani::assume(k < 6);
    let i: i32 = match k {
        0 => i32::MIN,
        1 => i32::MIN + 1,
        2 => -1,
        3 => 0,
        4 => 1,
        _ => i32::MAX,
    };
    i32_case(i);
}
