// Parser harnesses (C01, C02, C07, C04-parser) — child module of apollo_parser::parser.
//
// rowan's GreenNodeBuilder (hash-consing node cache) does not go through CBMC even on the empty input, so it is
// replaced by a CONTRACT STUB: a shadow that records what the parser feeds it and asserts rowan's own
// preconditions (the real builder panics when they are violated):
//   finish_node      needs an open node
//   start_node_at    needs a checkpoint that is not beyond the current children
//   finish           needs no open node and exactly one finished root element, which must be a node
// The shadow also keeps the concatenated token text (first 32 bytes + total length), which is what the
// lossless property (C02) is stated on.  Counterexamples are replayed against the REAL rowan natively.
#![allow(dead_code)]
#![allow(static_mut_refs)]
use super::*;
use rowan::{Checkpoint as RowanCheckpoint, GreenNode, GreenNodeBuilder};

#[path = "kf.rs"]
mod kf;

fn fmt_stub(_args: std::fmt::Arguments<'_>) -> String {
    String::new()
}

pub(super) const TEXT_CAP: usize = 32;
const MAX_DEPTH: usize = 16;
// rowan::GreenNodeBuilder keeps a flat stack `children` and a stack `parents` of (kind, first_child):
static mut LEN: usize = 0; // children.len()
static mut PARENTS: [usize; MAX_DEPTH] = [0; MAX_DEPTH]; // first_child of every open node
static mut DEPTH: usize = 0; // parents.len()
static mut ROOT_LAST_IS_NODE: bool = false;
static mut TEXT_LEN: usize = 0;
static mut TEXT: [u8; TEXT_CAP] = [0; TEXT_CAP];
static mut TOKENS: usize = 0;

fn s_token<'a>(_b: &mut GreenNodeBuilder<'a>, _k: rowan::SyntaxKind, text: &str)
where
    'a: 'a,
{
    unsafe {
        let bytes = text.as_bytes();
        let mut i = 0;
        while i < bytes.len() {
            if TEXT_LEN + i < TEXT_CAP {
                TEXT[TEXT_LEN + i] = bytes[i];
            }
            i += 1;
        }
        TEXT_LEN += bytes.len();
        LEN += 1;
        TOKENS += 1;
        if DEPTH == 0 {
            ROOT_LAST_IS_NODE = false;
        }
    }
}

fn s_start_node<'a>(_b: &mut GreenNodeBuilder<'a>, _k: rowan::SyntaxKind)
where
    'a: 'a,
{
    unsafe {
        assert!(DEPTH < MAX_DEPTH, "harness bound: nesting deeper than the shadow models");
        PARENTS[DEPTH] = LEN;
        DEPTH += 1;
    }
}

fn s_finish_node<'a>(_b: &mut GreenNodeBuilder<'a>)
where
    'a: 'a,
{
    unsafe {
        assert!(DEPTH > 0, "rowan contract: finish_node without an open node");
        DEPTH -= 1;
        LEN = PARENTS[DEPTH] + 1; // the node's children are folded into one element
        if DEPTH == 0 {
            ROOT_LAST_IS_NODE = true;
        }
    }
}

fn s_checkpoint<'a>(_b: &GreenNodeBuilder<'a>) -> RowanCheckpoint
where
    'a: 'a,
{
    unsafe { std::mem::transmute::<usize, RowanCheckpoint>(LEN) }
}

fn s_start_node_at<'a>(_b: &mut GreenNodeBuilder<'a>, cp: RowanCheckpoint, _k: rowan::SyntaxKind)
where
    'a: 'a,
{
    let cp: usize = unsafe { std::mem::transmute(cp) };
    unsafe {
        assert!(cp <= LEN, "rowan contract: checkpoint no longer valid (was finish_node called early?)");
        if DEPTH > 0 {
            assert!(cp >= PARENTS[DEPTH - 1], "rowan contract: checkpoint no longer valid (was an unmatched start_node_at called?)");
        }
        assert!(DEPTH < MAX_DEPTH, "harness bound: nesting deeper than the shadow models");
        PARENTS[DEPTH] = cp;
        DEPTH += 1;
    }
}

fn s_finish<'a>(_b: GreenNodeBuilder<'a>) -> GreenNode
where
    'a: 'a,
{
    unsafe {
        assert!(LEN == 1, "rowan contract: finish() needs exactly one root element");
        assert!(DEPTH == 0 && ROOT_LAST_IS_NODE, "rowan contract: the root element must be a finished node");
    }
    GreenNode::new(rowan::SyntaxKind(0), std::iter::empty())
}

fn shadow_reset() {
    unsafe {
        LEN = 0;
        DEPTH = 0;
        ROOT_LAST_IS_NODE = false;
        TEXT_LEN = 0;
        TOKENS = 0;
    }
}

fn shadow_text_is(input: &[u8]) -> bool {
    unsafe {
        if TEXT_LEN != input.len() {
            return false;
        }
        let mut i = 0;
        while i < input.len() && i < TEXT_CAP {
            if TEXT[i] != input[i] {
                return false;
            }
            i += 1;
        }
        true
    }
}

fn shadow_text_is_prefix_of(input: &[u8]) -> bool {
    unsafe {
        if TEXT_LEN > input.len() {
            return false;
        }
        let mut i = 0;
        while i < TEXT_LEN && i < TEXT_CAP {
            if TEXT[i] != input[i] {
                return false;
            }
            i += 1;
        }
        true
    }
}

macro_rules! parser_harness {
    ($(#[$m:meta])* fn $name:ident() $body:block) => {
        #[kani::proof]
        $(#[$m])*
        #[kani::stub(alloc::fmt::format, fmt_stub)]
        #[kani::stub(rowan::GreenNodeBuilder::token, s_token)]
        #[kani::stub(rowan::GreenNodeBuilder::start_node, s_start_node)]
        #[kani::stub(rowan::GreenNodeBuilder::finish_node, s_finish_node)]
        #[kani::stub(rowan::GreenNodeBuilder::checkpoint, s_checkpoint)]
        #[kani::stub(rowan::GreenNodeBuilder::start_node_at, s_start_node_at)]
        #[kani::stub(rowan::GreenNodeBuilder::finish, s_finish)]
        fn $name() $body
    };
}

#[derive(Clone, Copy, PartialEq, Eq)]
enum Entry {
    Document,
    SelectionSet,
    Type,
}

struct Outcome {
    errors: usize,
    limit_errors: usize,
    error_after_limit: bool,
    rec_current: usize,
    rec_high: usize,
    tok_high: usize,
}

fn run_entry(entry: Entry, s: &str, token_limit: usize, recursion_limit: usize) -> Outcome {
    shadow_reset();
    let p = Parser::new(s).token_limit(token_limit).recursion_limit(recursion_limit);
    macro_rules! summarize {
        ($tree:expr) => {{
            let tree = $tree;
            let mut errors = 0;
            let mut limit_errors = 0;
            let mut seen_limit = false;
            let mut error_after_limit = false;
            for e in tree.errors() {
                errors += 1;
                if seen_limit {
                    error_after_limit = true;
                }
                if e.is_limit() {
                    limit_errors += 1;
                    seen_limit = true;
                }
            }
            let o = Outcome {
                errors,
                limit_errors,
                error_after_limit,
                rec_current: tree.recursion_limit().current,
                rec_high: tree.recursion_limit().high,
                tok_high: tree.token_limit().high,
            };
            std::mem::forget(tree);
            o
        }};
    }
    match entry {
        Entry::Document => summarize!(p.parse()),
        Entry::SelectionSet => summarize!(p.parse_selection_set()),
        Entry::Type => summarize!(p.parse_type()),
    }
}

// ---- parser entry points ---------------------------------------------------------------------------------
// MEASURED: no symbolic dimension survives the parser.  One symbolic input byte, a symbolic token limit or a
// symbolic recursion limit (on concrete text) each make the two branches of the parser consume different
// amounts of input; at the join the lexer's cursor becomes a merged symbolic value and every later token
// re-enters the lexer's state machine (> 15 min each, none finished).  What does run is CONCRETE text with
// concrete limits: CBMC then executes one path, checking every panic / overflow / bounds / unwinding
// assertion and the rowan contract on it.  These runs are kept as smoke witnesses for the entry points and as
// the carriers of the known findings below; they are NOT counted as solver coverage of the input space.
macro_rules! concrete_run {
    ($name:ident, $entry:expr, $text:expr, $tl:expr, $rl:expr, |$o:ident| $check:block) => {
        parser_harness! {
            #[kani::unwind(24)]
            fn $name() {
                let $o = run_entry($entry, $text, $tl, $rl);
                let _ = &$o;
                $check;
                kani::cover!(true, "reached");
            }
        }
    };
}


// Concrete runs that PASS are not registered: CBMC reports spurious `__rust_dealloc` failures on them (a dealloc
// of the Parser's vectors that the native replay does not confirm), and a check that can raise a false alarm is
// worse than no check.  The witnesses below fail on the rowan contract *before* any deallocation.
// regression witnesses of the repaired "no single root" panic of parse_type (fix: commit fab33bc): the rowan
// contract holds, no panic, and the text is in the tree
concrete_run!(c01_type_empty, Entry::Type, "", usize::MAX, 500, |o| { assert!(o.errors >= 1 && shadow_text_is(b"")); });
concrete_run!(c01_type_leading_space, Entry::Type, " Int", usize::MAX, 500, |o| { assert!(o.errors == 0 && shadow_text_is(b" Int")); });
concrete_run!(c01_type_bang, Entry::Type, "!", usize::MAX, 500, |o| { assert!(o.errors >= 1 && shadow_text_is(b"!")); });
// C02 witness: a token after `[` inside a type is popped and never attached to the tree
concrete_run!(c02_type_list_bang_dropped, Entry::Type, "[!", usize::MAX, 500, |o| {
    assert!(o.errors >= 1);
    assert!(shadow_text_is(b"[!"), "lossless: tree text must equal the input");
});

// vacuity twin: must FAIL (claims the empty document has no error)
parser_harness! {
    #[kani::unwind(5)]
    fn c01_twin_must_fail() {
        let o = run_entry(Entry::Document, "", usize::MAX, 500);
        assert!(o.errors == 0);
    }
}
