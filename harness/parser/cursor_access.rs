// Accessors for the private fields of lexer::cursor::Cursor (child module of lexer::cursor), used by the
// lexer harnesses to state and to construct cursor states.  No logic of its own.
#![allow(dead_code)]
use super::*;

pub(crate) struct CursorState {
    pub(crate) index: usize,
    pub(crate) offset: usize,
    pub(crate) pending_none: bool,
    pub(crate) chars_exhausted: bool,
    pub(crate) err_none: bool,
}

pub(crate) fn state(c: &Cursor<'_>) -> CursorState {
    CursorState {
        index: c.index,
        offset: c.offset,
        pending_none: c.pending.is_none(),
        chars_exhausted: c.chars.clone().next().is_none(),
        err_none: c.err.is_none(),
    }
}

/// a cursor over `source` positioned after its last character: nothing pending, iterator exhausted
pub(crate) fn after_last_char<'a>(source: &'a str, index: usize, offset: usize) -> Cursor<'a> {
    Cursor { index, offset, source, chars: source[source.len()..].char_indices(), pending: None, err: None }
}
