// C06 (quoted strings) — child module of apollo_parser::cst::node_ext (unescape_string is private there).
//
// For every lexically valid quoted-string body of the form  prefix ++ [b]  (prefix concrete and listed below,
// b = every ASCII SourceCharacter, validity decided by the reference lexer on `"` + body + `"`):
//   unescape_string(body) does not panic and equals the spec's StringValue semantics
//   (escape sequences decoded: \" \\ \/ \b \f \n \r \t \uXXXX; every other character literal).
#![allow(dead_code)]
use super::*;
use crate::{Lexer, TokenKind};

include!("parser_ref_lexer.rs");

fn fmt_stub(_args: std::fmt::Arguments<'_>) -> String {
    String::new()
}

/// `"` + body + `"` is exactly one valid StringValue token of the lexical grammar
fn body_is_valid<const M: usize>(body: &[u8]) -> bool {
    let mut quoted = [0u8; M];
    quoted[0] = b'"';
    let mut i = 0;
    while i < body.len() {
        quoted[1 + i] = body[i];
        i += 1;
    }
    quoted[M - 1] = b'"';
    matches!(ref_token(&quoted[..], 0), Some((TokenKind::StringValue, end)) if end == M) && !(M >= 3 && body.len() >= 1 && body[0] == b'"' && false)
}

pub(super) fn body_case<const N: usize, const M: usize>(prefix: &[u8], b: u8) {
    let mut body = [0u8; N];
    let mut i = 0;
    while i + 1 < N {
        body[i] = prefix[i];
        i += 1;
    }
    body[N - 1] = b;
    // precondition of the property: the literal is lexically valid (and is not a block string)
    kani::assume(body_is_valid::<M>(&body[..]));
    let s = unsafe { std::str::from_utf8_unchecked(&body[..]) };
    let got = unescape_string(s);
    let mut want = [0u8; OUT_CAP];
    let n = ref_decode(&body[..], &mut want);
    let g = got.as_bytes();
    let mut ok = g.len() == n;
    let mut k = 0;
    while k < n && k < g.len() {
        ok &= g[k] == want[k];
        k += 1;
    }
    std::mem::forget(got);
    assert!(ok);
}

macro_rules! body_harness {
    ($name:ident, $n:expr, $m:expr, $unwind:expr, $prefix:expr, $cover:expr) => {
        #[kani::proof]
        #[kani::unwind($unwind)]
        #[kani::stub(alloc::fmt::format, fmt_stub)]
        fn $name() {
            let b: u8 = kani::any();
            kani::assume(is_ascii_source_char(b));
            body_case::<$n, $m>($prefix, b);
            kani::cover!(b == $cover, "a valid body of this shape");
        }
    };
}

body_harness!(c06_body_plain, 1, 3, 8, b"", b'a');
body_harness!(c06_body_after_letter, 2, 4, 9, b"a", b'/');
body_harness!(c06_body_escape, 2, 4, 9, b"\\", b'n');
body_harness!(c06_body_letter_escape, 3, 5, 10, b"a\\", b't');
body_harness!(c06_body_escape_then_char, 3, 5, 10, b"\\\\", b'x');
body_harness!(c06_body_unicode_ascii, 6, 8, 13, b"\\u004", b'1');
body_harness!(c06_body_unicode_2byte, 6, 8, 13, b"\\u00e", b'9');
body_harness!(c06_body_unicode_3byte, 6, 8, 13, b"\\u20A", b'C');
body_harness!(c06_body_unicode_below_surrogates, 6, 8, 13, b"\\uD7F", b'F');
body_harness!(c06_body_unicode_then_char, 7, 9, 14, b"\\u0041", b'b');
body_harness!(c06_body_two_escapes, 4, 6, 11, b"\\n\\", b'"');

// MEASURED: two or more symbolic bytes do not finish (15 min): after a symbolic byte the `chars()` iterator's
// position is symbolic.  One symbolic last byte costs 2-10 s, so the prefixes are enumerated generously instead
// (tools/gen_strings.py -> strings_prefix.rs).
#[path = "parser_strings_prefix.rs"]
mod prefixes;

// vacuity twin: must FAIL (claims \n decodes to the letter n)
#[kani::proof]
#[kani::unwind(9)]
#[kani::stub(alloc::fmt::format, fmt_stub)]
fn c06_twin_must_fail() {
    let got = unescape_string("\\n");
    let ok = got.as_bytes().len() == 1 && got.as_bytes()[0] == b'n';
    std::mem::forget(got);
    assert!(ok);
}
