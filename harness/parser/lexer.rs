// Lexer harnesses (C03, C01-lexer, C04-lexer gate) — child module of apollo_parser::lexer.
#![allow(dead_code)]
use super::*;

fn fmt_stub(_args: std::fmt::Arguments<'_>) -> String {
    String::new()
}

// ---- spec character classes (October 2021, section 2.1) -------------------------------------------
include!("parser_ref_lexer.rs");

fn ref_name_start(c: char) -> bool {
    let u = c as u32;
    (u >= 'A' as u32 && u <= 'Z' as u32) || (u >= 'a' as u32 && u <= 'z' as u32) || c == '_'
}

fn ref_digit(c: char) -> bool {
    let u = c as u32;
    u >= '0' as u32 && u <= '9' as u32
}

fn ref_whitespace_like(c: char) -> bool {
    // WhiteSpace (tab, space) + LineTerminator (\n, \r) + UnicodeBOM
    let u = c as u32;
    u == 0x9 || u == 0x20 || u == 0xA || u == 0xD || u == 0xFEFF
}

fn same_kind(a: Option<TokenKind>, b: Option<TokenKind>) -> bool {
    match (a, b) {
        (None, None) => true,
        (Some(x), Some(y)) => x == y,
        _ => false,
    }
}

// Unicode property tables are skip-search loops; unchanged code never calls them.  If a character-class helper
// starts to (e.g. `char::is_numeric`), these stubs answer with the table's real value on a handful of known
// characters and `false` elsewhere: an UNDER-approximation, so any counterexample the solver reports uses a
// character on which the stub is exact and therefore replays natively; without the stubs the harness would
// only time out inside the table search.
fn numeric_stub_known(c: char) -> bool {
    matches!(c as u32, 0xB2 | 0xB3 | 0xB9 | 0xBC | 0xBD | 0xBE | 0x0663 | 0xFF11)
}
fn alphabetic_stub_known(c: char) -> bool {
    matches!(c as u32, 0xAA | 0xB5 | 0xBA | 0xE9 | 0x4E2D | 0x03B1)
}

// every Unicode scalar value
#[kani::proof]
#[kani::unwind(8)]
#[kani::stub(core::unicode::unicode_data::n::lookup, numeric_stub_known)]
#[kani::stub(core::unicode::unicode_data::alphabetic::lookup, alphabetic_stub_known)]
fn c03_char_classes() {
    let c: char = kani::any();
    assert!(same_kind(lookup::punctuation_kind(c), ref_punctuator(c)));
    assert!(lookup::is_namestart(c) == ref_name_start(c));
    assert!(is_name_continue(c) == (ref_name_start(c) || ref_digit(c)));
    assert!(is_whitespace_assimilated(c) == ref_whitespace_like(c));
    assert!(is_line_terminator(c) == (c == '\n' || c == '\r'));
    assert!(is_escaped_char(c) == matches!(c, '"' | '\\' | '/' | 'b' | 'f' | 'n' | 'r' | 't'));
    kani::cover!(c as u32 > 0xFFFF, "astral character");
    kani::cover!(lookup::punctuation_kind(c).is_some(), "a punctuator");
    kani::cover!(c as u32 == 0xFEFF, "BOM");
}

// ---- reference for a one-character input ---------------------------------------------------------
#[derive(Clone, Copy, PartialEq, Eq)]
enum Item1 {
    Tok(TokenKind),
    Err,
}

fn ref_single(c: char) -> Item1 {
    if let Some(k) = ref_punctuator(c) {
        return Item1::Tok(k);
    }
    if ref_name_start(c) {
        return Item1::Tok(TokenKind::Name);
    }
    if ref_digit(c) {
        return Item1::Tok(TokenKind::Int);
    }
    if c == '#' {
        return Item1::Tok(TokenKind::Comment);
    }
    if ref_whitespace_like(c) {
        return Item1::Tok(TokenKind::Whitespace);
    }
    // '"' (unterminated string), '.' (unterminated spread), '-' (no digits) and every other character
    Item1::Err
}

// The lexer is checked compositionally, because a second `next()` on a cursor whose fields are merged
// symbolic values sends the symbolic executor through every state of `advance` again (the 10-min-per-byte wall):
//   (A) first item of a one-character input, every limit: kind/data/index per the reference, AND the cursor's
//       post-state: nothing pending, character iterator exhausted, no deferred error;
//   (B) from ANY lexer state with nothing pending and an exhausted iterator (index/offset/limit tracker
//       arbitrary): the next item is Eof at index len (or the limit error), and nothing follows.
// (A)'s proved post-state is exactly (B)'s assumed pre-state, so together they give the full item stream
// [item(c), Eof] of every one-character input under every limit.
// Inputs have a CONCRETE byte length per harness (1, 2, 3 or 4 bytes = every UTF-8 encoding length): with a
// symbolic length the character iterator's decoding is unrolled for every length and the run does not finish
// (measured: > 10 min, against 4 s for a concrete length).
fn first_item_case(s: &str, want: Item1, limit: usize) {
    let n = s.len();
    let mut lx = Lexer::new(s).with_limit(limit);
    let first = lx.next();
    let ok = match &first {
        Some(Ok(t)) => limit >= 1 && want == Item1::Tok(t.kind()) && t.data().len() == n && t.index() == 0,
        Some(Err(e)) if e.is_limit() => limit == 0 && e.index() == 0,
        Some(Err(e)) => limit >= 1 && want == Item1::Err && e.data().len() == n && e.index() == 0,
        None => false,
    };
    let is_limit = matches!(&first, Some(Err(e)) if e.is_limit());
    // post-state (pre-state of harness B)
    let post = if is_limit {
        lx.finished
    } else {
        let st = cursor::verif_cursor::state(&lx.cursor);
        !lx.finished && st.pending_none && st.chars_exhausted && st.err_none && st.index <= n && st.offset <= n
    };
    let tracker = lx.limit_tracker.high == 1 && lx.limit_tracker.current == if is_limit { 0 } else { 1 };
    std::mem::forget(first);
    std::mem::forget(lx);
    assert!(ok);
    assert!(post);
    assert!(tracker);
    kani::cover!(want == Item1::Err && limit >= 1, "lexical error");
    kani::cover!(limit == 0, "limit 0: only the limit error");
}

// (A) every 1-byte input x every limit
#[kani::proof]
#[kani::unwind(6)]
#[kani::stub(alloc::fmt::format, fmt_stub)]
fn c03_first_item_1byte() {
    let b: u8 = kani::any();
    kani::assume(b < 128);
    let limit: usize = kani::any();
    let buf = [b];
    let s = unsafe { std::str::from_utf8_unchecked(&buf[..]) };
    let want = ref_single(b as char);
    first_item_case(s, want, limit);
    kani::cover!(b == b'"' && limit >= 1, "unterminated string start");
    kani::cover!(want == Item1::Tok(TokenKind::Name) && limit >= 1, "name");
    kani::cover!(want == Item1::Tok(TokenKind::Comma) && limit >= 1, "comma");
}

fn cont(b: u8) -> bool {
    b >= 0x80 && b <= 0xBF
}

// Multi-byte characters: the LEAD byte is concrete per call (every lead byte value is listed), the continuation
// bytes are symbolic.  With a symbolic lead byte the decoder's width is symbolic, the iterator position after
// the first character is symbolic, and the second loop iteration of `advance` hits the state-machine wall.
macro_rules! each_lead {
    ($f:ident, $limit:expr; $($lead:literal)*) => { $( $f($lead, $limit); )* };
}

fn two_byte_case(lead: u8, limit: usize) {
    let b1: u8 = kani::any();
    kani::assume(cont(b1));
    let buf = [lead, b1];
    let s = unsafe { std::str::from_utf8_unchecked(&buf[..]) };
    first_item_case(s, Item1::Err, limit);
}

// (A) every 2-byte character (U+0080..U+07FF): always "unexpected character"
#[kani::proof]
#[kani::unwind(6)]
#[kani::stub(alloc::fmt::format, fmt_stub)]
fn c03_first_item_2byte() {
    let limit: usize = kani::any();
    each_lead!(two_byte_case, limit;
        0xC2 0xC3 0xC4 0xC5 0xC6 0xC7 0xC8 0xC9 0xCA 0xCB 0xCC 0xCD 0xCE 0xCF
        0xD0 0xD1 0xD2 0xD3 0xD4 0xD5 0xD6 0xD7 0xD8 0xD9 0xDA 0xDB 0xDC 0xDD 0xDE 0xDF);
}

fn three_byte_case(lead: u8, limit: usize) {
    let b1: u8 = kani::any();
    let b2: u8 = kani::any();
    let ok1 = match lead {
        0xE0 => b1 >= 0xA0 && b1 <= 0xBF,
        0xED => b1 >= 0x80 && b1 <= 0x9F, // no surrogates
        _ => cont(b1),
    };
    kani::assume(ok1 && cont(b2));
    let buf = [lead, b1, b2];
    let s = unsafe { std::str::from_utf8_unchecked(&buf[..]) };
    let bom = lead == 0xEF && b1 == 0xBB && b2 == 0xBF;
    let want = if bom { Item1::Tok(TokenKind::Whitespace) } else { Item1::Err };
    first_item_case(s, want, limit);
    kani::cover!(bom && limit >= 1, "BOM lexed as whitespace");
    kani::cover!(lead == 0xE2 && b1 == 0x80 && b2 == 0xA8, "U+2028");
}

// (A) every 3-byte character (U+0800..U+FFFF minus surrogates): the BOM is whitespace, the rest an error
#[kani::proof]
#[kani::unwind(6)]
#[kani::stub(alloc::fmt::format, fmt_stub)]
fn c03_first_item_3byte() {
    let limit: usize = kani::any();
    each_lead!(three_byte_case, limit;
        0xE0 0xE1 0xE2 0xE3 0xE4 0xE5 0xE6 0xE7 0xE8 0xE9 0xEA 0xEB 0xEC 0xED 0xEE 0xEF);
}

fn four_byte_case(lead: u8, limit: usize) {
    let b1: u8 = kani::any();
    let b2: u8 = kani::any();
    let b3: u8 = kani::any();
    let ok1 = match lead {
        0xF0 => b1 >= 0x90 && b1 <= 0xBF,
        0xF4 => b1 >= 0x80 && b1 <= 0x8F,
        _ => cont(b1),
    };
    kani::assume(ok1 && cont(b2) && cont(b3));
    let buf = [lead, b1, b2, b3];
    let s = unsafe { std::str::from_utf8_unchecked(&buf[..]) };
    first_item_case(s, Item1::Err, limit);
}

// (A) every 4-byte character (U+10000..U+10FFFF)
#[kani::proof]
#[kani::unwind(6)]
#[kani::stub(alloc::fmt::format, fmt_stub)]
fn c03_first_item_4byte() {
    let limit: usize = kani::any();
    each_lead!(four_byte_case, limit; 0xF0 0xF1 0xF2 0xF3 0xF4);
}

// (B) the item after the last character, from an arbitrary consistent lexer state
fn after_last_char_case(s: &'static str) {
    let n = s.len();
    let index: usize = kani::any();
    let offset: usize = kani::any();
    kani::assume(index <= n && offset <= n);
    let current: usize = kani::any();
    let high: usize = kani::any();
    let limit: usize = kani::any();
    kani::assume(current <= high && current < usize::MAX && current <= limit);
    let mut lx = Lexer {
        finished: false,
        cursor: cursor::verif_cursor::after_last_char(s, index, offset),
        limit_tracker: LimitTracker { current, high, limit },
    };
    let item = lx.next();
    let after = lx.next();
    let reached = current + 1 > limit;
    let ok = match &item {
        Some(Ok(t)) => !reached && t.kind() == TokenKind::Eof && t.data().is_empty() && t.index() == n,
        Some(Err(e)) => reached && e.is_limit(),
        None => false,
    } && after.is_none()
        && lx.finished
        && lx.limit_tracker.high == if current + 1 > high { current + 1 } else { high };
    std::mem::forget(item);
    std::mem::forget(lx);
    assert!(ok);
    kani::cover!(reached, "limit error instead of Eof");
    kani::cover!(!reached, "Eof");
}

// the source text is only consulted for its length after the last character: one representative per length
#[kani::proof]
#[kani::unwind(6)]
#[kani::stub(alloc::fmt::format, fmt_stub)]
fn c03_after_last_char() {
    after_last_char_case("a");
    after_last_char_case("\u{e9}");
    after_last_char_case("\u{4e2d}");
    after_last_char_case("\u{1f680}");
}

// the empty input: exactly one Eof token at index 0 (or the limit error when limit == 0)
#[kani::proof]
#[kani::unwind(4)]
#[kani::stub(alloc::fmt::format, fmt_stub)]
fn c03_empty_input_all_limits() {
    let limit: usize = kani::any();
    let mut lx = Lexer::new("").with_limit(limit);
    let first = lx.next();
    let second = lx.next();
    let ok = match &first {
        Some(Ok(t)) => limit >= 1 && t.kind() == TokenKind::Eof && t.data().is_empty() && t.index() == 0,
        Some(Err(e)) => limit == 0 && e.is_limit(),
        None => false,
    } && second.is_none()
        && lx.limit_tracker.high == 1;
    std::mem::forget(first);
    std::mem::forget(lx);
    assert!(ok);
    kani::cover!(limit == 0, "limit 0");
    kani::cover!(limit > 0, "limit > 0");
}

// vacuity twin: must FAIL (claims '#' is a lexical error)
#[kani::proof]
#[kani::unwind(6)]
#[kani::stub(alloc::fmt::format, fmt_stub)]
fn c03_twin_must_fail() {
    let b: u8 = kani::any();
    kani::assume(b < 128);
    let buf = [b];
    let s = unsafe { std::str::from_utf8_unchecked(&buf[..]) };
    let mut lx = Lexer::new(s);
    let first = lx.next();
    let is_tok = matches!(&first, Some(Ok(_)));
    std::mem::forget(first);
    std::mem::forget(lx);
    assert!(is_tok == (ref_single(b as char) != Item1::Err && b != b'#'));
}

// =================================================================================================
// prefix x last-byte comparison against the reference lexer (harness/parser/ref_lexer.rs, included above)
// =================================================================================================
#[path = "parser_lexer_prefix.rs"]
mod prefix;

/// prefix ++ [b] through the real lexer and the reference
pub(super) fn prefix_case<const N: usize>(prefix: &[u8], b: u8) {
    let mut buf = [0u8; N];
    let mut i = 0;
    while i + 1 < N {
        buf[i] = prefix[i];
        i += 1;
    }
    buf[N - 1] = b;
    let s = unsafe { std::str::from_utf8_unchecked(&buf[..]) };
    assert!(lexer_agrees(&buf[..], s));
}
