// C04 — LimitTracker, full domain.  Child module of apollo_parser::limit.
#![allow(dead_code)]
use super::*;

// for every (current, high, limit) with current <= high and current < usize::MAX
#[kani::proof]
fn c04_tracker_check_and_increment() {
    let current: usize = kani::any();
    let high: usize = kani::any();
    let limit: usize = kani::any();
    kani::assume(current <= high && current < usize::MAX);
    let mut t = LimitTracker { current, high, limit };
    let reached = t.check_and_increment();
    // "limit reached" exactly when the new depth exceeds the limit
    assert!(reached == (current + 1 > limit));
    // high-water mark
    assert!(t.high == if current + 1 > high { current + 1 } else { high });
    // balanced on the early-return path, incremented otherwise
    assert!(t.current == if reached { current } else { current + 1 });
    assert!(t.limit == limit);
    assert!(t.current <= t.high);
    kani::cover!(reached && current + 1 == limit + 1, "first value over the limit");
    kani::cover!(!reached && current + 1 == limit, "exactly at the limit");
    kani::cover!(limit == 0, "limit 0");
    kani::cover!(limit == usize::MAX, "no limit");
}

#[kani::proof]
fn c04_tracker_decrement_inverse() {
    let current: usize = kani::any();
    let high: usize = kani::any();
    let limit: usize = kani::any();
    kani::assume(current <= high && current < usize::MAX);
    let mut t = LimitTracker { current, high, limit };
    if !t.check_and_increment() {
        t.decrement();
    }
    assert!(t.current == current);
    assert!(t.high >= high && t.limit == limit);
    kani::cover!(t.high > high, "high-water mark moved");
}

#[kani::proof]
fn c04_tracker_new() {
    let limit: usize = kani::any();
    let t = LimitTracker::new(limit);
    assert!(t.current == 0 && t.high == 0 && t.limit == limit);
    kani::cover!(true, "reached");
}

// a bounded history: k nested enters then exits, any limit: depth never exceeds limit, errors exactly when
// the nesting exceeds the limit, balance restored
#[kani::proof]
#[kani::unwind(7)]
fn c04_tracker_nesting_history() {
    let limit: usize = kani::any();
    let depth: usize = kani::any();
    kani::assume(depth <= 5);
    let mut t = LimitTracker::new(limit);
    let mut entered = 0usize;
    let mut hit = false;
    let mut i = 0;
    while i < depth {
        if t.check_and_increment() {
            hit = true;
            break;
        }
        entered += 1;
        i += 1;
    }
    assert!(hit == (depth > limit));
    assert!(t.current == entered && entered <= limit);
    assert!(t.high == if depth > limit { limit + 1 } else { depth });
    while entered > 0 {
        t.decrement();
        entered -= 1;
    }
    assert!(t.current == 0);
    kani::cover!(hit && limit == 3, "limit 3 hit at depth 4+");
    kani::cover!(!hit && depth == 5, "depth 5 within the limit");
}

// vacuity twin: must FAIL (off-by-one: claims the limit is reached at current + 1 >= limit)
#[kani::proof]
fn c04_twin_must_fail() {
    let current: usize = kani::any();
    let limit: usize = kani::any();
    kani::assume(current < usize::MAX);
    let mut t = LimitTracker { current, high: current, limit };
    let reached = t.check_and_increment();
    assert!(reached == (current + 1 >= limit));
}
