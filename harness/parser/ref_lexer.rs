// Reference lexer for the October 2021 lexical grammar over ASCII bytes + the comparison with the real
// lexer.  Plain Rust, no Kani items: included both by the Kani harness (harness/parser/lexer.rs) and by the
// native validator tools/refcheck (which pushes the repository's lexer corpus and every short ASCII string
// through it, so a mistake in the reference shows up natively before any solver run).
// The includer provides `Lexer` and `TokenKind`.

pub(crate) fn ref_punctuator(c: char) -> Option<TokenKind> {
    Some(match c {
        '!' => TokenKind::Bang,
        '$' => TokenKind::Dollar,
        '&' => TokenKind::Amp,
        '(' => TokenKind::LParen,
        ')' => TokenKind::RParen,
        ':' => TokenKind::Colon,
        '=' => TokenKind::Eq,
        '@' => TokenKind::At,
        '[' => TokenKind::LBracket,
        ']' => TokenKind::RBracket,
        '{' => TokenKind::LCurly,
        '}' => TokenKind::RCurly,
        '|' => TokenKind::Pipe,
        ',' => TokenKind::Comma, // Comma is an ignored token, lexed as its own kind
        _ => return None,
    })
}


pub(crate) fn is_ascii_source_char(b: u8) -> bool {
    // SourceCharacter restricted to ASCII: tab, LF, CR, 0x20..=0x7E (other control characters are outside
    // the compared domain: whether they may appear inside strings/comments differs between spec editions)
    b == 0x9 || b == 0xA || b == 0xD || (b >= 0x20 && b <= 0x7E)
}

fn r_name_start(b: u8) -> bool {
    b == b'_' || (b >= b'A' && b <= b'Z') || (b >= b'a' && b <= b'z')
}
fn r_digit(b: u8) -> bool {
    b >= b'0' && b <= b'9'
}
fn r_hex(b: u8) -> Option<u32> {
    match b {
        b'0'..=b'9' => Some((b - b'0') as u32),
        b'a'..=b'f' => Some((b - b'a') as u32 + 10),
        b'A'..=b'F' => Some((b - b'A') as u32 + 10),
        _ => None,
    }
}
fn r_at(s: &[u8], i: usize) -> Option<u8> {
    if i < s.len() {
        Some(s[i])
    } else {
        None
    }
}
fn r_starts(s: &[u8], i: usize, pat: &[u8]) -> bool {
    let mut k = 0;
    while k < pat.len() {
        if r_at(s, i + k) != Some(pat[k]) {
            return false;
        }
        k += 1;
    }
    true
}

/// The token of the lexical grammar that starts at `i` (maximal munch, with the lookahead restrictions),
/// or None when no valid token starts there.
pub(crate) fn ref_token(s: &[u8], i: usize) -> Option<(TokenKind, usize)> {
    let c = s[i];
    if c == b'\t' || c == b' ' || c == b'\n' || c == b'\r' {
        let mut j = i + 1;
        while j < s.len() && (s[j] == b'\t' || s[j] == b' ' || s[j] == b'\n' || s[j] == b'\r') {
            j += 1;
        }
        return Some((TokenKind::Whitespace, j));
    }
    if c == b'#' {
        let mut j = i + 1;
        while j < s.len() && s[j] != b'\n' && s[j] != b'\r' {
            j += 1;
        }
        return Some((TokenKind::Comment, j));
    }
    if let Some(k) = ref_punctuator(c as char) {
        return Some((k, i + 1));
    }
    if c == b'.' {
        return if r_starts(s, i, b"...") { Some((TokenKind::Spread, i + 3)) } else { None };
    }
    if r_name_start(c) {
        let mut j = i + 1;
        while j < s.len() && (r_name_start(s[j]) || r_digit(s[j])) {
            j += 1;
        }
        return Some((TokenKind::Name, j));
    }
    if c == b'-' || r_digit(c) {
        let mut j = i;
        if c == b'-' {
            j += 1;
        }
        match r_at(s, j) {
            Some(b'0') => j += 1,
            Some(d) if d >= b'1' && d <= b'9' => {
                j += 1;
                while j < s.len() && r_digit(s[j]) {
                    j += 1;
                }
            }
            _ => return None,
        }
        let mut kind = TokenKind::Int;
        if r_at(s, j) == Some(b'.') {
            let start = j + 1;
            let mut k = start;
            while k < s.len() && r_digit(s[k]) {
                k += 1;
            }
            if k == start {
                return None;
            }
            j = k;
            kind = TokenKind::Float;
        }
        if r_at(s, j) == Some(b'e') || r_at(s, j) == Some(b'E') {
            let mut k = j + 1;
            if r_at(s, k) == Some(b'+') || r_at(s, k) == Some(b'-') {
                k += 1;
            }
            let start = k;
            while k < s.len() && r_digit(s[k]) {
                k += 1;
            }
            if k == start {
                return None;
            }
            j = k;
            kind = TokenKind::Float;
        }
        // lookahead restriction: not followed by Digit, '.', NameStart
        if let Some(n) = r_at(s, j) {
            if r_digit(n) || n == b'.' || r_name_start(n) {
                return None;
            }
        }
        return Some((kind, j));
    }
    if c == b'"' {
        if r_starts(s, i, b"\"\"\"") {
            let mut j = i + 3;
            while j < s.len() {
                if r_starts(s, j, b"\\\"\"\"") {
                    j += 4;
                } else if r_starts(s, j, b"\"\"\"") {
                    return Some((TokenKind::StringValue, j + 3));
                } else {
                    j += 1;
                }
            }
            return None;
        }
        let mut j = i + 1;
        while j < s.len() {
            let d = s[j];
            if d == b'"' {
                return Some((TokenKind::StringValue, j + 1));
            }
            if d == b'\n' || d == b'\r' {
                return None;
            }
            if d == b'\\' {
                match r_at(s, j + 1) {
                    Some(b'u') => {
                        let mut v = 0u32;
                        let mut k = 0;
                        while k < 4 {
                            match r_at(s, j + 2 + k).and_then(r_hex) {
                                Some(h) => v = v * 16 + h,
                                None => return None,
                            }
                            k += 1;
                        }
                        // documented: surrogate halves are rejected
                        if v >= 0xD800 && v <= 0xDFFF {
                            return None;
                        }
                        j += 6;
                    }
                    Some(b'"') | Some(b'\\') | Some(b'/') | Some(b'b') | Some(b'f') | Some(b'n') | Some(b'r') | Some(b't') => j += 2,
                    _ => return None,
                }
            } else {
                j += 1;
            }
        }
        return None;
    }
    None
}

/// Runs the real lexer over `s` (whose bytes are `buf`) and compares its item stream with the reference:
/// items are contiguous and reproduce the input; up to the first error every token is the reference token;
/// the first error sits exactly where the grammar has no token; an Eof token closes the stream.
pub(crate) fn lexer_agrees(buf: &[u8], s: &str) -> bool {
    let n = buf.len();
    let mut lx = Lexer::new(s);
    let mut consumed = 0usize; // bytes covered by the items so far
    let mut pos = 0usize; // reference cursor (valid while !failed)
    let mut failed = false; // the lexer has reported its first error
    let mut saw_eof = false;
    let mut ok = true;
    let mut items = 0;
    while items < n + 2 {
        let item = lx.next();
        match &item {
            None => {
                std::mem::forget(item);
                break;
            }
            Some(Ok(t)) if t.kind() == TokenKind::Eof => {
                saw_eof = true;
                ok &= t.data().is_empty() && t.index() == n && consumed == n;
            }
            Some(Ok(t)) => {
                let d = t.data().as_bytes();
                ok &= !saw_eof && t.index() == consumed && consumed + d.len() <= n;
                let mut k = 0;
                while k < d.len() && consumed + k < n {
                    ok &= d[k] == buf[consumed + k];
                    k += 1;
                }
                if !failed {
                    match ref_token(buf, pos) {
                        Some((kind, end)) => {
                            ok &= kind == t.kind() && end == pos + d.len();
                            pos = end;
                        }
                        None => ok = false, // the lexer accepted a token where the grammar has none
                    }
                }
                consumed += d.len();
            }
            Some(Err(e)) => {
                let d = e.data().as_bytes();
                ok &= !saw_eof && !e.is_limit() && !d.is_empty() && consumed + d.len() <= n;
                let mut k = 0;
                while k < d.len() && consumed + k < n {
                    ok &= d[k] == buf[consumed + k];
                    k += 1;
                }
                if !failed {
                    // the first error must sit exactly where the grammar has no token
                    ok &= pos < n && ref_token(buf, pos).is_none();
                    failed = true;
                }
                consumed += d.len();
            }
        }
        std::mem::forget(item);
        items += 1;
    }
    std::mem::forget(lx);
    ok &= saw_eof && consumed == n;
    if !failed {
        ok &= pos == n;
    }
    ok
}

// ---- StringValue static semantics (quoted strings) ------------------------------------------------------
pub(crate) const OUT_CAP: usize = 24;

/// spec semantics of a valid body, into a fixed buffer; returns the length
pub(crate) fn ref_decode(body: &[u8], out: &mut [u8; OUT_CAP]) -> usize {
    let mut n = 0;
    let mut i = 0;
    while i < body.len() {
        let c = body[i];
        if c != b'\\' {
            out[n] = c;
            n += 1;
            i += 1;
            continue;
        }
        let e = body[i + 1];
        if e == b'u' {
            let mut v = 0u32;
            let mut k = 0;
            while k < 4 {
                v = v * 16 + r_hex(body[i + 2 + k]).unwrap_or(0);
                k += 1;
            }
            // UTF-8 encoding of the code point (never a surrogate for a valid body)
            if v < 0x80 {
                out[n] = v as u8;
                n += 1;
            } else if v < 0x800 {
                out[n] = 0xC0 | (v >> 6) as u8;
                out[n + 1] = 0x80 | (v & 0x3F) as u8;
                n += 2;
            } else {
                out[n] = 0xE0 | (v >> 12) as u8;
                out[n + 1] = 0x80 | ((v >> 6) & 0x3F) as u8;
                out[n + 2] = 0x80 | (v & 0x3F) as u8;
                n += 3;
            }
            i += 6;
        } else {
            out[n] = match e {
                b'b' => 0x08,
                b'f' => 0x0C,
                b'n' => b'\n',
                b'r' => b'\r',
                b't' => b'\t',
                other => other, // " \ /
            };
            n += 1;
            i += 2;
        }
    }
    n
}

