#!/bin/bash
# confirm_seed.sh <worktree> <crate> <example-name>
# The worktree has out/patch.diff and out/demo.rs.  Confirms: demo passes without the patch, the unedited
# suite passes with it, the demo fails with it.  Leaves the patch APPLIED (for VERIF_REPO=<worktree> ./check).
set -u
W=$1; CRATE=$2; EX=$3
export CARGO_TARGET_DIR=$W/target CARGO_NET_OFFLINE=true
cd "$W" || exit 2
git checkout -q -- . ; cp out/demo.rs crates/$CRATE/examples/$EX.rs
echo "== demo WITHOUT patch"; timeout 600 cargo run -q --offline -p $CRATE --example $EX >/dev/null 2>&1; echo "demo_without_rc=$?"
git apply out/patch.diff && echo "== applied"
cargo test --workspace --no-fail-fast --offline 2>&1 | grep -E "^test result|FAILED|failed" > out/suite.txt
echo "suite_ok=$(grep -c '^test result: ok' out/suite.txt) suite_bad=$(grep -c -E '^test result: FAILED' out/suite.txt)"
timeout 600 cargo run -q --offline -p $CRATE --example $EX >/dev/null 2>&1; echo "demo_with_rc=$?"
echo done
