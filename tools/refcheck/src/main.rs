//! Native validation of the reference lexer: the real lexer and the reference must agree on
//!   * every ASCII-source-character string of length <= 3 (and length 4 over a 30-character alphabet),
//!   * every ASCII file of crates/apollo-parser/test_data/lexer.
//! Exit status 1 and the offending inputs are printed on disagreement.
use apollo_parser::{Lexer, TokenKind};
include!("../../../harness/parser/ref_lexer.rs");

fn main() {
    let src: Vec<u8> = (0u8..128).filter(|b| is_ascii_source_char(*b)).collect();
    let mut bad = 0usize;
    let mut total = 0usize;
    let mut check = |buf: &[u8]| {
        total += 1;
        let s = std::str::from_utf8(buf).unwrap();
        if !lexer_agrees(buf, s) {
            bad += 1;
            if bad <= 40 {
                println!("DISAGREE {:?}", s);
            }
        }
    };
    check(b"");
    for a in &src {
        check(&[*a]);
        for b in &src {
            check(&[*a, *b]);
            for c in &src {
                check(&[*a, *b, *c]);
            }
        }
    }
    let small: &[u8] = b"ae_01-+.\"\\# \n\r,!{u}/bxDF89:@$n";
    for a in small { for b in small { for c in small { for d in small { check(&[*a, *b, *c, *d]); for e in b"\"\\.e0a\n" { check(&[*a, *b, *c, *d, *e]); } } } } }
    let dir = std::env::args().nth(1).unwrap_or("/repo/crates/apollo-parser/test_data/lexer".into());
    for sub in ["ok", "err"] {
        if let Ok(rd) = std::fs::read_dir(format!("{dir}/{sub}")) {
            for e in rd.flatten() {
                let p = e.path();
                if p.extension().map(|x| x == "graphql").unwrap_or(false) {
                    let text = std::fs::read(&p).unwrap();
                    if text.iter().all(|b| is_ascii_source_char(*b)) {
                        total += 1;
                        let s = std::str::from_utf8(&text).unwrap();
                        if !lexer_agrees(&text, s) { bad += 1; println!("DISAGREE file {}", p.display()); }
                    }
                }
            }
        }
    }
    println!("checked {total} inputs, {bad} disagreements");
    std::process::exit(if bad > 0 { 1 } else { 0 });
}
