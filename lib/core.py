"""Core machinery shared by all property checks.

* stage():     copy the crates of /repo's *working tree* into a scratch workspace and append
               `#[cfg(kani)] #[path = ...] mod ...;` lines so the harnesses are child modules of
               the code they check (no edits to /repo).
* run_kani():  one `cargo kani` invocation, parsed into per-harness results.
* Evidence:    evidence/<ID>.json writer.

Exit codes used by ./check:  0 = held on everything explored (known findings printed),
1 = VIOLATION (replayed natively), 2 = inconclusive (timeout / OOM / build error / solver error /
vacuous harness / counterexample that does not replay).  2 is never reported as success.
"""
import json
import os
import re
import shutil
import signal
import subprocess
import sys
import time

VERIF = os.path.dirname(os.path.dirname(os.path.abspath(__file__)))
REPO = os.environ.get("VERIF_REPO", "/repo")
SCRATCH_ROOT = os.environ.get("VERIF_SCRATCH", "/var/tmp/apollo-verif")
NCPU = os.cpu_count() or 4

SKIP_DIRS = {"benches", "test_data", "tests", "target", "screenshots"}


def log(*a):
    print(*a, flush=True)


def _rss_watchdog(pgid, limit_kb, stop, killed):
    """Kill any single process of the group whose resident set exceeds the limit (a runaway CBMC);
    kani-driver then reports that harness as failed without output -> classified ERROR/inconclusive."""
    while not stop.wait(3.0):
        try:
            out = subprocess.run(["ps", "-eo", "pid=,pgid=,rss=,comm="], capture_output=True, text=True).stdout
        except Exception:
            continue
        for line in out.splitlines():
            f = line.split(None, 3)
            if len(f) < 4:
                continue
            pid, pg, rss = int(f[0]), int(f[1]), int(f[2])
            if pg == pgid and rss > limit_kb:
                try:
                    os.kill(pid, signal.SIGKILL)
                    killed.append((f[3], rss // 1024))
                except ProcessLookupError:
                    pass


def sh(cmd, cwd=None, env=None, timeout=None, mem_gb=None, logfile=None, rss_limit_gb=None):
    """Run a command, return (rc, output, seconds, timed_out)."""
    t0 = time.time()
    e = dict(os.environ)
    e["CARGO_NET_OFFLINE"] = "true"
    e.setdefault("CARGO_TERM_COLOR", "never")
    if env:
        e.update(env)

    def pre():
        os.setsid()
        if mem_gb:
            import resource
            lim = int(mem_gb * (1 << 30))
            resource.setrlimit(resource.RLIMIT_AS, (lim, lim))

    import tempfile
    if logfile:
        sink = open(logfile, "w+", errors="replace")
    else:
        sink = tempfile.TemporaryFile("w+", errors="replace")
    p = subprocess.Popen(cmd, cwd=cwd, env=e, stdout=sink, stderr=subprocess.STDOUT, preexec_fn=pre)
    timed_out = False
    stop, killed, th = None, [], None
    if rss_limit_gb:
        import threading
        stop = threading.Event()
        th = threading.Thread(target=_rss_watchdog, args=(p.pid, int(rss_limit_gb * 1024 * 1024), stop, killed),
                              daemon=True)
        th.start()
    try:
        p.wait(timeout=timeout)
    except subprocess.TimeoutExpired:
        timed_out = True
        try:
            os.killpg(p.pid, signal.SIGKILL)
        except ProcessLookupError:
            pass
        p.wait()
    if stop is not None:
        stop.set()
    for comm, mb in killed:
        sink.write("\n[verif watchdog] killed %s at %d MB resident (limit %s GB): out of memory\n" % (comm, mb, rss_limit_gb))
    sink.flush()
    sink.seek(0)
    out = sink.read()
    sink.close()
    dt = time.time() - t0
    return p.returncode, out, dt, timed_out


# ------------------------------------------------------------------------------------------------
# staging


def _strip_sections(toml_text):
    """Drop [[bench]] / [[test]] / [[example]] tables and dev-dependencies are kept."""
    out, skip = [], False
    for line in toml_text.splitlines():
        s = line.strip()
        if s.startswith("[["):
            skip = s in ("[[bench]]", "[[test]]", "[[example]]")
        elif s.startswith("["):
            skip = False
        if not skip:
            out.append(line)
    return "\n".join(out) + "\n"


class Stage:
    def __init__(self, tag, crates=("apollo-parser", "apollo-compiler")):
        self.root = os.path.join(SCRATCH_ROOT, "%s-%d" % (tag, os.getpid()))
        if os.path.exists(self.root):
            shutil.rmtree(self.root)
        os.makedirs(self.root)
        self.ws = os.path.join(self.root, "ws")
        self.target = os.path.join(self.root, "target")
        self.crates = crates
        self.injected = []
        os.makedirs(os.path.join(self.ws, "crates"))
        for c in crates:
            src = os.path.join(REPO, "crates", c)
            dst = os.path.join(self.ws, "crates", c)
            shutil.copytree(src, dst, ignore=lambda d, names: [n for n in names if n in SKIP_DIRS])
            p = os.path.join(dst, "Cargo.toml")
            with open(p) as f:
                t = f.read()
            with open(p, "w") as f:
                f.write(_strip_sections(t))
        with open(os.path.join(self.ws, "Cargo.toml"), "w") as f:
            f.write('[workspace]\nresolver = "2"\nmembers = [%s]\n' %
                    ", ".join('"crates/%s"' % c for c in crates))
            f.write('\n[profile.dev]\ndebug = 0\n')
        shutil.copy(os.path.join(REPO, "Cargo.lock"), os.path.join(self.ws, "Cargo.lock"))
        os.makedirs(os.path.join(self.ws, ".cargo"))
        with open(os.path.join(self.ws, ".cargo", "config.toml"), "w") as f:
            f.write("[net]\noffline = true\n")

    def inject(self, crate, rel_file, harness_path, modname, cfg="kani"):
        """Append `#[cfg(<cfg>)] #[path="..."] mod <modname>;` to crates/<crate>/<rel_file>."""
        p = os.path.join(self.ws, "crates", crate, rel_file)
        with open(p, "a") as f:
            vis, _, name = modname.rpartition(" ")
            f.write('\n#[cfg(%s)]\n#[path = "%s"]\n%s mod %s;\n' % (cfg, harness_path, vis, name))
        self.injected.append("%s/%s <- %s" % (crate, rel_file, os.path.relpath(harness_path, VERIF)))

    def append(self, crate, rel_file, text):
        p = os.path.join(self.ws, "crates", crate, rel_file)
        with open(p, "a") as f:
            f.write(text)

    def repo_rev(self):
        rc, out, _, _ = sh(["git", "-C", REPO, "rev-parse", "HEAD"])
        rev = out.strip()
        rc, out, _, _ = sh(["git", "-C", REPO, "status", "--porcelain"])
        return rev + ("+dirty" if out.strip() else "")

    def cleanup(self):
        if os.environ.get("VERIF_KEEP"):
            log("VERIF_KEEP set: scratch kept at", self.root)
            return
        shutil.rmtree(self.root, ignore_errors=True)
        try:
            os.rmdir(SCRATCH_ROOT)
        except OSError:
            pass


# ------------------------------------------------------------------------------------------------
# Kani


class HarnessResult:
    def __init__(self, name):
        self.name = name
        self.status = "MISSING"      # SUCCESS | FAILED | ERROR | TIMEOUT | MISSING
        self.checks_total = 0
        self.checks_failed = []      # [(description, location)]
        self.checks_undet = 0
        self.covers_total = 0
        self.covers_sat = 0
        self.covers_unsat = []       # descriptions of unsatisfied covers
        self.vars = 0
        self.clauses = 0
        self.vccs = 0
        self.symex_s = 0.0
        self.solver_s = 0.0
        self.time_s = 0.0
        self.playbacks = []          # [{kind, description, test}] concrete playback unit tests
        self.unwind_failed = False
        self.raw = ""

    def to_json(self):
        return {
            "harness": self.name, "status": self.status,
            "checks": self.checks_total, "checks_failed": len(self.checks_failed),
            "failed": [{"description": d, "location": l} for d, l in self.checks_failed[:8]],
            "covers": self.covers_total, "covers_satisfied": self.covers_sat,
            "sat_variables": self.vars, "sat_clauses": self.clauses, "vccs": self.vccs,
            "symex_s": round(self.symex_s, 2), "solver_s": round(self.solver_s, 2),
            "verification_s": round(self.time_s, 2),
        }


_RE_HARNESS = re.compile(r"^(?:Thread (\d+): )?Checking harness (\S+?)\.\.\.", re.M)
_RE_PLAYBACK = re.compile(
    r"Concrete playback unit test for `([^`]*)`:\n```\n(.*?)```", re.S)


def _parse_chunk(r, chunk):
    cut = chunk.find("Manual Harness Summary")
    if cut >= 0:
        chunk = chunk[:cut]
    r.raw += chunk
    # regular format: every check listed
    for m in re.finditer(r"^Check \d+: (\S+)\n\s+- Status: (\S+)\n\s+- Description: \"(.*)\"\n(?:\s+- Location: (.*)\n)?",
                         chunk, re.M):
        cname, status, desc, loc = m.group(1), m.group(2), m.group(3), m.group(4) or ""
        if ".cover." in cname:
            r.covers_total += 1
            if status == "SATISFIED":
                r.covers_sat += 1
            else:
                r.covers_unsat.append(desc + " @ " + loc)
            continue
        r.checks_total += 1
        if status == "FAILURE":
            r.checks_failed.append((desc, loc))
        elif status not in ("SUCCESS", "UNREACHABLE"):
            r.checks_undet += 1
    # terse format: summary lines only
    m = re.search(r"\*\* (\d+) of (\d+) failed(?: \((\d+) undetermined\))?", chunk)
    if m and r.checks_total == 0:
        r.checks_total = int(m.group(2))
        if m.group(3):
            r.checks_undet = int(m.group(3))
        for fm in re.finditer(r"^Failed Checks: (.*)\n File: (.*)$", chunk, re.M):
            r.checks_failed.append((fm.group(1), fm.group(2)))
    m = re.search(r"\*\* (\d+) of (\d+) cover properties satisfied", chunk)
    if m and r.covers_total == 0:
        r.covers_sat, r.covers_total = int(m.group(1)), int(m.group(2))
        if r.covers_sat < r.covers_total:
            r.covers_unsat.append("%d cover(s) not satisfied (terse output)" % (r.covers_total - r.covers_sat))
    for d, _l in r.checks_failed:
        if "unwinding assertion" in d:
            r.unwind_failed = True
    m = re.search(r"(\d+) variables, (\d+) clauses", chunk)
    if m:
        r.vars, r.clauses = int(m.group(1)), int(m.group(2))
    m = re.search(r"Generated (\d+) VCC\(s\), (\d+) remaining", chunk)
    if m:
        r.vccs = int(m.group(2))
    m = re.search(r"Runtime Symex: ([\d.e+-]+)s", chunk)
    if m:
        r.symex_s = float(m.group(1))
    r.solver_s += sum(float(x) for x in re.findall(r"Runtime Solver: ([\d.e+-]+)s", chunk))
    m = re.search(r"Verification Time: ([\d.e+-]+)s", chunk)
    if m:
        r.time_s = float(m.group(1))
    if "VERIFICATION:- SUCCESSFUL" in chunk:
        r.status = "SUCCESS"
    elif "VERIFICATION:- FAILED" in chunk:
        r.status = "FAILED" if r.checks_failed else "ERROR"
    elif r.status == "MISSING":
        r.status = "ERROR"
    if "CBMC failed" in chunk or "Status: ERROR" in chunk or "std::bad_alloc" in chunk \
            or "out of memory" in chunk.lower() or "CBMC timed out" in chunk:
        r.status = "ERROR"
    for m in _RE_PLAYBACK.finditer(chunk):
        text = m.group(2)
        km = re.search(r"/// Check for `([^`]*)`: \"(.*)\"", text)
        kind, desc = (km.group(1), km.group(2)) if km else ("?", "")
        r.playbacks.append({"kind": kind, "description": desc, "test": text})


def parse_kani_output(out, harnesses):
    """Split Kani output (regular or terse/-j) into per-harness results."""
    res = {h.split("::")[-1]: HarnessResult(h.split("::")[-1]) for h in harnesses}

    def find(full):
        return res.get(full.split("::")[-1]) or res.get(full)

    threaded = re.search(r"^Thread \d+: Checking harness", out, re.M) is not None
    if not threaded:
        marks = [(m.start(), m.group(2)) for m in _RE_HARNESS.finditer(out)]
        for i, (pos, full) in enumerate(marks):
            end = marks[i + 1][0] if i + 1 < len(marks) else len(out)
            r = find(full)
            if r is not None:
                _parse_chunk(r, out[pos:end])
    else:
        cur = {}
        marks = [(m.start(), m.group(1)) for m in re.finditer(r"^Thread (\d+): ", out, re.M)]
        for i, (pos, tid) in enumerate(marks):
            end = marks[i + 1][0] if i + 1 < len(marks) else len(out)
            chunk = out[pos:end]
            m = _RE_HARNESS.match(chunk)
            if m:
                cur[tid] = find(m.group(2))
                if cur[tid] is not None and cur[tid].status == "MISSING":
                    cur[tid].status = "STARTED"
            elif cur.get(tid) is not None:
                _parse_chunk(cur[tid], chunk)
        for r in res.values():
            if r.status == "STARTED":
                r.status = "ERROR"
    return res


def run_kani(stage, package, harnesses, unsafe_checks=False, timeout=900, mem_gb=None,
             extra_flags=(), cfgs=(), logname="kani", jobs=1, playback=True, rss_limit_gb=None):
    """Run the given harnesses of `package` in the staged workspace.  Returns (results, meta)."""
    cmd = ["cargo", "kani", "-p", package, "--target-dir", stage.target,
           "-Z", "stubbing", "-Z", "unstable-options"]
    if playback and jobs <= 1:
        cmd += ["-Z", "concrete-playback", "--concrete-playback=print"]
    if not unsafe_checks:
        cmd += ["--no-memory-safety-checks"]
    cmd += ["--no-assertion-reach-checks"]
    if jobs > 1:
        cmd += ["-j", str(jobs), "--output-format", "terse"]
    cmd += list(extra_flags)
    for h in harnesses:
        cmd += ["--harness", h]
    env = {}
    if cfgs:
        env["RUSTFLAGS"] = " ".join("--cfg %s" % c for c in cfgs)
    logfile = os.path.join(stage.root, logname + ".log")
    if rss_limit_gb is None:
        rss_limit_gb = float(os.environ.get("VERIF_RSS_GB", "0") or 0) or max(8.0, 44.0 / max(1, jobs))
    rc, out, dt, timed_out = sh(cmd, cwd=stage.ws, env=env, timeout=timeout, mem_gb=mem_gb, logfile=logfile,
                                rss_limit_gb=rss_limit_gb)
    res = parse_kani_output(out, harnesses)
    build_error = ("error: could not compile" in out) or ("error[E" in out and "Checking harness" not in out)
    for r in res.values():
        if r.status == "MISSING" and timed_out:
            r.status = "TIMEOUT"
        elif r.status == "ERROR" and timed_out:
            r.status = "TIMEOUT"
    meta = {"cmd": " ".join(cmd), "rc": rc, "wall_s": round(dt, 1), "timed_out": timed_out,
            "build_error": build_error, "log": logfile, "out": out}
    return res, meta


# ------------------------------------------------------------------------------------------------
# known findings


def load_known_findings():
    p = os.path.join(VERIF, "known_findings.json")
    if not os.path.exists(p):
        return {"findings": [], "fixed": []}
    with open(p) as f:
        return json.load(f)


# ------------------------------------------------------------------------------------------------
# evidence


def write_evidence(pid, tier, seed, wall_s, coverage, assumptions, violations, extra=None):
    evdir = os.environ.get("VERIF_EVIDENCE_DIR") or os.path.join(VERIF, "evidence")
    os.makedirs(evdir, exist_ok=True)
    ev = {
        "property_id": pid, "tier": tier, "seed": seed, "level": "model_checking",
        "coverage": coverage, "assumptions": assumptions, "wall_s": round(wall_s, 1),
        "violations": violations,
    }
    if extra:
        ev.update(extra)
    p = os.path.join(evdir, pid + ".json")
    with open(p, "w") as f:
        json.dump(ev, f, indent=1)
        f.write("\n")
    return p
