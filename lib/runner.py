"""Generic property runner: stage -> (pre-steps) -> Kani groups -> classify -> replay -> evidence."""
import json
import os
import re
import shutil
import sys
import time

import core
from core import log, VERIF


class H:
    """One Kani harness and what it claims."""

    def __init__(self, name, tiers=("quick", "thorough"), functions=(), domain="", bound="",
                 expect="pass", heavy=False, unsafe=None, timeout=None, optional=False,
                 kf=None, signature=None, what=None, group=None, mod=0, sub=""):
        self.name = name
        self.tiers = tiers
        self.functions = list(functions)
        self.domain = domain
        self.bound = bound
        self.expect = expect          # pass | twin (must FAIL: vacuity witness) | finding (known-finding witness)
        self.heavy = heavy            # run in the parallel (-j) group
        self.unsafe = unsafe          # None = property default
        self.timeout = timeout
        self.optional = optional      # a timeout is recorded as "not decided", not as inconclusive
        self.kf = kf                  # known-finding key this witness harness belongs to
        self.signature = signature    # regex the failed-check description must match (finding witnesses)
        self.what = what              # human description of the finding
        self.group = group            # explicit group name (own cargo-kani invocation)
        self.mod = mod                # index into spec["inject"]: the module that defines the harness
        self.sub = sub                # nested module path below it ("prefix")


def module_path(rel_file, modname):
    """crate-relative module path of a module appended to <crate>/<rel_file>."""
    p = rel_file
    if p.startswith("src/"):
        p = p[4:]
    if p.endswith(".rs"):
        p = p[:-3]
    parts = [x for x in p.split("/") if x]
    if parts and parts[-1] in ("mod", "lib", "main"):
        parts = parts[:-1]
    return "::".join(parts + [modname])


def _kf_keys_in_sources(paths):
    keys = set()
    for p in paths:
        with open(p) as f:
            keys.update(re.findall(r"\bkf::([A-Z][A-Z0-9_]*)", f.read()))
    return sorted(keys)


class Run:
    def __init__(self, spec, tier, seed):
        self.spec = spec
        self.pid = spec["id"]
        self.tier = tier
        self.seed = seed
        self.t0 = time.time()
        self.inconclusive = []   # reasons
        self.violations = []     # (harness, desc, replay_path)
        self.known = []          # printed KNOWN-FINDING lines
        self.notes = []
        self.extra_results = []  # from pre-steps (SMT queries …)
        self.results = {}
        self.metas = []
        self.stage = None
        self.group_of = {}

    # -- staging -------------------------------------------------------------------------------
    def do_stage(self):
        spec = self.spec
        st = core.Stage(self.pid.lower(), crates=spec.get("crates", ("apollo-parser", "apollo-compiler")))
        self.stage = st
        hdir = os.path.join(st.root, "harness")
        os.makedirs(hdir)
        srcs = []
        for crate, rel_file, harness_rel, modname in spec["inject"]:
            src = os.path.join(VERIF, "harness", harness_rel)
            dst = os.path.join(hdir, harness_rel.replace("/", "_"))
            shutil.copy(src, dst)
            srcs.append(dst)
            st.inject(crate, rel_file, dst, modname, cfg=spec.get("cfg", "kani"))
        for extra in spec.get("support", ()):
            src = os.path.join(VERIF, "harness", extra)
            dst = os.path.join(hdir, extra.replace("/", "_"))
            shutil.copy(src, dst)
            srcs.append(dst)
        # known-finding switches
        kf = core.load_known_findings()
        self.open_findings = [f for f in kf.get("findings", []) if f["property"] == self.pid]
        open_keys = {f["key"] for f in self.open_findings}
        keys = set(_kf_keys_in_sources(srcs)) | open_keys
        with open(os.path.join(hdir, "kf.rs"), "w") as f:
            f.write("// generated from /verif/known_findings.json: true = listed as an open known finding\n")
            for k in sorted(keys):
                f.write("#[allow(dead_code)] pub(super) const %s: bool = %s;\n" % (k, "true" if k in open_keys else "false"))
        # playback switch: harnesses whose stubs have a semantic effect rebuild that effect from real objects when replayed
        with open(os.path.join(hdir, "mode.rs"), "w") as f:
            f.write("#[allow(dead_code)] pub(super) const PLAYBACK: bool = false;\n")
        self.staged_sources = srcs
        # per-property generated support code that depends on the staged source (e.g. a struct's current field list)
        hook = spec.get("stage_hook")
        if hook:
            hook(st, hdir)
        return st

    # -- Kani ----------------------------------------------------------------------------------
    def full_name(self, h):
        crate, rel_file, _harness_rel, modname = self.spec["inject"][h.mod]
        return module_path(rel_file, modname.split(" ")[-1]) + "::" + (h.sub + "::" if h.sub else "") + h.name

    def harnesses(self):
        hs = [h for h in self.spec["harnesses"] if self.tier in h.tiers]
        only = os.environ.get("VERIF_ONLY")  # debugging aid: comma-separated harness names
        if only:
            hs = [h for h in hs if h.name in only.split(",")]
        open_keys = {f["key"] for f in self.open_findings}
        # finding witnesses only run while the finding is listed open
        hs = [h for h in hs if not (h.expect == "finding" and h.kf not in open_keys)]
        if self.seed:
            k = self.seed % max(1, len(hs))
            hs = hs[k:] + hs[:k]
        return hs

    def run_groups(self):
        spec = self.spec
        hs = self.harnesses()
        default_unsafe = spec.get("unsafe_checks", False)
        groups = {}
        for h in hs:
            unsafe = default_unsafe if h.unsafe is None else h.unsafe
            g = h.group or ("heavy" if h.heavy else "light")
            groups.setdefault((g, unsafe), []).append(h)
        budget = spec.get("timeout", {}).get(self.tier, 900)
        for (g, unsafe), members in sorted(groups.items(), key=lambda kv: kv[0][0] != "light"):
            names = [self.full_name(h) for h in members]
            jobs = 1
            if g != "light" and len(names) > 1:
                jobs = min(len(names), spec.get("jobs", core.NCPU))
            tmo = max([h.timeout or 0 for h in members] + [0]) or budget
            log("[%s] kani group %s (%d harnesses, jobs=%d, pointer-checks=%s, timeout=%ds)" %
                (self.pid, g, len(names), jobs, unsafe, tmo))
            res, meta = core.run_kani(self.stage, spec["package"], names, unsafe_checks=unsafe,
                                      timeout=tmo, mem_gb=None,
                                      extra_flags=tuple(spec.get("kani_flags", ())) + ("--exact",), jobs=jobs,
                                      logname="kani-%s-%s" % (g, "u" if unsafe else "s"))
            self.metas.append({k: v for k, v in meta.items() if k != "out"})
            if meta["build_error"]:
                self.inconclusive.append("build error in staged workspace (see %s)" % meta["log"])
                lines = meta["out"].splitlines()
                for i, l in enumerate(lines):
                    if l.startswith("error"):
                        log("\n".join(lines[i:i + 6]))
                break
            for h in members:
                self.group_of[h.name] = (unsafe, tmo)
            self.results.update(res)

    # -- classification ------------------------------------------------------------------------
    def classify(self):
        ignore = [re.compile(x) for x in self.spec.get("ignore_failed", ())]
        for h in self.harnesses():
            r = self.results.get(h.name)
            if r is None:
                self.inconclusive.append("%s: no result" % h.name)
                continue
            if ignore and r.status == "FAILED" and h.expect != "twin":
                # checks that belong to Kani's C model of the allocator and are not part of what this property claims
                # (memory-safety checks are off for these harnesses); see DESIGN.md C01
                kept = [(d, l) for d, l in r.checks_failed if not any(rx.search(d) for rx in ignore)]
                if len(kept) != len(r.checks_failed):
                    self.notes.append("%s: %d failed allocator-model check(s) ignored (not claimed): %s" %
                                      (h.name, len(r.checks_failed) - len(kept), sorted({d for d, _ in r.checks_failed if (d, _) not in kept})[:3]))
                    r.checks_failed = kept
                    if not kept:
                        r.status = "SUCCESS"
            if h.expect == "twin":
                if r.status != "FAILED":
                    self.inconclusive.append("%s: vacuity twin did not fail (status %s)" % (h.name, r.status))
                continue
            if h.expect == "finding":
                f = next(x for x in self.open_findings if x["key"] == h.kf)
                sig = h.signature or f.get("signature", "")
                if r.status == "FAILED" and any(re.search(sig, d) for d, _ in r.checks_failed):
                    line = "KNOWN-FINDING: property=%s %s" % (self.pid, f["what"])
                    if line not in self.known:
                        self.known.append(line)
                        log(line)
                    self.notes.append("known finding %s witnessed by %s" % (h.kf, h.name))
                elif r.status == "SUCCESS":
                    self.notes.append("known finding %s no longer reproduces (witness harness %s passes)" % (h.kf, h.name))
                    log("[%s] note: known finding %s no longer reproduces" % (self.pid, h.kf))
                elif r.status == "FAILED":
                    # fails, but differently from the recorded finding: a different violation
                    self.handle_failure(h, r)
                else:
                    self.inconclusive.append("%s: %s" % (h.name, r.status))
                continue
            if r.status == "SUCCESS":
                if r.covers_sat < r.covers_total:
                    self.inconclusive.append("%s: vacuous — cover(s) not satisfied: %s" % (h.name, "; ".join(r.covers_unsat)))
                continue
            if r.status == "FAILED":
                self.handle_failure(h, r)
                continue
            if h.optional and r.status in ("TIMEOUT", "ERROR", "MISSING"):
                self.notes.append("%s: not decided within the cap (%s) — outside this run's claim" % (h.name, r.status))
                log("[%s] %s not decided (%s): recorded, not counted as passed" % (self.pid, h.name, r.status))
                continue
            self.inconclusive.append("%s: %s" % (h.name, r.status))

    def handle_failure(self, h, r):
        real = [(d, l) for d, l in r.checks_failed if "unwinding assertion" not in d]
        if not real:
            self.inconclusive.append("%s: unwinding assertion failed — harness bound too small (machinery error)" % h.name)
            return
        if not [p for p in r.playbacks if p["kind"] != "cover"]:
            # parallel (-j) runs carry no concrete playback: run this harness alone to get the counterexample
            unsafe, tmo = self.group_of.get(h.name, (self.spec.get("unsafe_checks", False), 900))
            log("[%s] re-running %s alone for a concrete counterexample" % (self.pid, h.name))
            res2, _meta2 = core.run_kani(self.stage, self.spec["package"], [self.full_name(h)], unsafe_checks=unsafe,
                                         timeout=tmo, extra_flags=tuple(self.spec.get("kani_flags", ())) + ("--exact",),
                                         jobs=1, logname="kani-rerun-" + h.name)
            r2 = res2[h.name]
            if r2.status == "FAILED":
                r = r2
                self.results[h.name] = r2
                real = [(d, l) for d, l in r.checks_failed if "unwinding assertion" not in d] or real
        ok, path, detail = self.replay(h, r)
        if ok:
            self.violations.append((h.name, real[0][0], path))
        else:
            self.inconclusive.append("%s: counterexample for '%s' did not reproduce natively (%s)" % (h.name, real[0][0], detail))

    # -- replay --------------------------------------------------------------------------------
    def replay(self, h, r):
        tests = [p for p in r.playbacks if p["kind"] != "cover"]
        if not tests:
            sweep = self.spec.get("native_sweep")
            if not sweep:
                return False, None, "Kani produced no concrete playback test"
            # Kani emits no playback for panics raised inside std with a runtime-formatted message: fall back to the
            # property's native sweep over the harnesses' finite domain (replay step only; the solver made the decision)
            ok, out = run_native_test(self.spec, self.stage, sweep)
            os.makedirs(os.path.join(VERIF, "replays"), exist_ok=True)
            path = os.path.join(VERIF, "replays", "%s-%s.json" % (self.pid, h.name))
            with open(path, "w") as f:
                json.dump({"property": self.pid, "harness": h.name, "failed_check": r.checks_failed[0][0],
                           "location": r.checks_failed[0][1], "native_sweep_test": sweep, "playback_test": "",
                           "reproduced_natively": ok, "native_output_tail": out[-3000:],
                           "repo_rev": self.stage.repo_rev()}, f, indent=1)
            return ok, path, "native sweep passed" if not ok else ""
        test = tests[0]
        ok, out = replay_test(self.spec, self.stage, test["test"], self.staged_sources)
        os.makedirs(os.path.join(VERIF, "replays"), exist_ok=True)
        path = os.path.join(VERIF, "replays", "%s-%s.json" % (self.pid, h.name))
        vals = re.findall(r"//\s*(.*)\n\s*vec!\[([^\]]*)\]", test["test"])
        with open(path, "w") as f:
            json.dump({
                "property": self.pid, "harness": h.name, "failed_check": r.checks_failed[0][0],
                "location": r.checks_failed[0][1], "playback_test": test["test"],
                "decoded_values": [{"value": v.strip(), "bytes": b.strip()} for v, b in vals],
                "reproduced_natively": ok, "native_output_tail": out[-3000:],
                "repo_rev": self.stage.repo_rev(),
            }, f, indent=1)
        return ok, path, "native test passed" if not ok else ""

    # -- evidence ------------------------------------------------------------------------------
    def finish(self):
        spec = self.spec
        hs = self.harnesses()
        samples, evaluations, nontrivial = [], 0, 0
        tot_solver = 0.0
        for h in hs:
            r = self.results.get(h.name)
            if r is None:
                continue
            d = r.to_json()
            d.update({"functions": h.functions, "input_domain": h.domain, "bound": h.bound, "role": h.expect})
            wit = [p for p in r.playbacks if p["kind"] == "cover"]
            if wit:
                d["cover_witness_example"] = {
                    "cover": wit[0]["description"],
                    "values": re.findall(r"//\s*(.*)\n\s*vec!", wit[0]["test"])[:12]}
            samples.append(d)
            evaluations += r.checks_total + r.covers_total
            tot_solver += r.solver_s or r.time_s
            if h.expect == "pass" and r.status == "SUCCESS" and r.covers_total > 0 and r.covers_sat == r.covers_total:
                nontrivial += 1
        for e in self.extra_results:
            samples.append(e)
            evaluations += e.get("queries", 1)
            if e.get("nontrivial"):
                nontrivial += e.get("nontrivial_count", 1)
            tot_solver += e.get("solver_s", 0.0)
        coverage = {
            "evaluations": evaluations,
            "distinct_nontrivial": nontrivial,
            "rule": "evaluations = verification conditions (CBMC property checks + cover queries, plus SMT queries of "
                    "engine E2) decided by the solver in this run; distinct_nontrivial = distinct proof harnesses / "
                    "SMT obligations that were decided AND shown non-vacuous (every kani::cover! witness satisfiable; "
                    "for SMT, the un-negated formula satisfiable). Each harness quantifies over the whole input domain "
                    "written in its 'input_domain' within 'bound'.",
            "samples": samples,
            "exhaustive": bool(spec.get("exhaustive", False)),
            "engine": spec.get("engine", "Kani 0.68 / CBMC 6.11 (cadical)"),
            "functions_encoded": sorted({f for h in hs for f in h.functions}),
            "stubs": spec.get("stubs", []),
            "outside_claim": spec.get("outside", []),
            "solver_time_s": round(tot_solver, 2),
            "kani_invocations": self.metas,
            "known_findings_printed": self.known,
            "notes": self.notes,
            "inconclusive": self.inconclusive,
            "repo_rev": self.stage.repo_rev() if self.stage else "",
            "injected": self.stage.injected if self.stage else [],
        }
        core.write_evidence(self.pid, self.tier, self.seed, time.time() - self.t0, coverage,
                            spec.get("assumptions", []), len(self.violations))
        for h in hs:
            r = self.results.get(h.name)
            if r is not None:
                log("  %-34s %-8s checks=%-4d covers=%d/%d  %.1fs" % (h.name, r.status, r.checks_total, r.covers_sat,
                                                                    r.covers_total, r.time_s))
        for name, desc, path in self.violations:
            log("VIOLATION property=%s replay=%s   (%s: %s)" % (self.pid, path, name, desc))
        for why in self.inconclusive:
            log("[%s] INCONCLUSIVE: %s" % (self.pid, why))
        if self.violations:
            return 1
        if self.inconclusive:
            return 2
        log("[%s] OK tier=%s harnesses=%d checks=%d nontrivial=%d wall=%.0fs" %
            (self.pid, self.tier, len(hs), evaluations, nontrivial, time.time() - self.t0))
        return 0


def run_native_test(spec, stage, test_name):
    """run one native #[test] that lives in a staged harness module (compiled with cfg(kani) by `cargo kani playback`)"""
    cmd = ["cargo", "kani", "playback", "-Z", "concrete-playback", "-Z", "stubbing", "-p", spec["package"], "--", test_name]
    rc, out, dt, to = core.sh(cmd, cwd=stage.ws, timeout=1800)
    ran = re.search(r"running 1 test", out) is not None
    failed = re.search(r"test result: FAILED", out) is not None
    return bool(ran and failed), out


def replay_test(spec, stage, test_text, staged_sources):
    """Append the playback unit test to the staged harness copy that defines the harness and run it natively
    (dev profile, then an optimised profile without debug assertions).  True = the failure reproduces."""
    m = re.search(r"concrete_playback_run\(concrete_vals, (\w+)\)", test_text)
    hname = m.group(1) if m else None
    target = None
    for p in staged_sources:
        with open(p) as f:
            if hname and re.search(r"\b%s\b" % hname, f.read()):
                target = p
                break
    if target is None:
        return False, "harness source not found"
    with open(target, "a") as f:
        f.write("\n" + test_text + "\n")
    mode = os.path.join(os.path.dirname(target), "mode.rs")
    with open(mode, "w") as f:
        f.write("#[allow(dead_code)] pub(super) const PLAYBACK: bool = true;\n")
    tname = re.search(r"fn (kani_concrete_playback_\w+)", test_text).group(1)
    cmd = ["cargo", "kani", "playback", "-Z", "concrete-playback", "-Z", "stubbing", "-p", spec["package"], "--", tname]
    outs = []
    reproduced = []
    for prof, env in (("dev", {}),
                      ("release-like", {"CARGO_PROFILE_TEST_OPT_LEVEL": "3",
                                        "CARGO_PROFILE_TEST_DEBUG_ASSERTIONS": "false",
                                        "CARGO_PROFILE_TEST_OVERFLOW_CHECKS": "false"})):
        rc, out, dt, to = core.sh(cmd, cwd=stage.ws, env=env, timeout=1800)
        failed = re.search(r"test result: FAILED", out) is not None
        ran = re.search(r"running 1 test", out) is not None
        outs.append("== profile %s rc=%s ran=%s failed=%s (%.0fs)\n%s" % (prof, rc, ran, failed, dt, out[-2500:]))
        reproduced.append(ran and failed)
        if prof == "dev" and not (ran and failed):
            break
    # a failure in the dev profile (the one Kani models) is what counts; the release-like result is reported too
    return bool(reproduced and reproduced[0]), "\n".join(outs)


def main_run(spec, tier, seed):
    run = Run(spec, tier, seed)
    rc = 2
    try:
        run.do_stage()
        pre = spec.get("pre")
        if pre:
            pre(run)
        if run.harnesses():
            run.run_groups()
        run.classify()
        rc = run.finish()
    finally:
        if run.stage:
            run.stage.cleanup()
    return rc


def main_replay(spec, path):
    with open(path) as f:
        rep = json.load(f)
    if rep.get("kind") == "smt":
        return spec["replay_smt"](rep)
    run = Run(spec, "quick", 0)
    try:
        run.do_stage()
        ok, out = replay_test(spec, run.stage, rep["playback_test"], run.staged_sources)
        log(out[-4000:])
        if ok:
            log("VIOLATION property=%s replay=%s   (reproduced: %s)" % (spec["id"], path, rep["failed_check"]))
            return 1
        log("[%s] replay did not reproduce on the current tree" % spec["id"])
        return 0
    finally:
        run.stage.cleanup()
