#!/usr/bin/env python3
"""Regenerates MANIFEST.json from manifest_src.py (keeps the file valid and in one place)."""
import json, os, sys
HERE = os.path.dirname(os.path.abspath(__file__))
sys.path.insert(0, HERE)
import manifest_src as M

props = [json.loads(l)["id"] for l in open(os.path.join(HERE, "properties.jsonl"))]
checks = []
for pid, c in M.CHECKS.items():
    checks.append({
        "property_id": pid,
        "quick_cmd": "./check %s --tier quick" % pid,
        "thorough_cmd": "./check %s --tier thorough" % pid,
        "evidence_file": "/verif/evidence/%s.json" % pid,
        "replay_cmd_template": "./check %s --replay {path}" % pid,
        "engine": c.get("engine", "kani"),
        "level_claimed": {"category": "model_checking", "text": c["text"], "design_ref": c["design_ref"]},
        "level_note": c["note"],
        "technique": c["technique"],
    })
na = [{"property_id": p, "reason": M.NOT_APPLICABLE[p]} for p in props if p not in M.CHECKS]
missing = [p for p in props if p not in M.CHECKS and p not in M.NOT_APPLICABLE]
assert not missing, missing
man = {
    "version": 1,
    "setup_cmd": "./setup.sh",
    "hooks": {
        "guard": "none: no source hooks in /repo. Harness modules are appended as `#[cfg(kani)] #[path=..] mod ..;` to a scratch copy of the crates made from /repo's working tree on every run",
        "enable": "n/a (cfg(kani) is set by `cargo kani` itself on the staged copy; /repo is never built with it)",
        "baseline_off_cmd": "cd /repo && cargo test --workspace --no-fail-fast --offline",
        "source_commits": M.SOURCE_COMMITS,
        "add_only": True,
    },
    "engines": M.ENGINES,
    "checks": checks,
    "notes": M.NOTES,
    "not_applicable": na,
}
json.dump(man, open(os.path.join(HERE, "MANIFEST.json"), "w"), indent=1)
print("checks:", len(checks), "not_applicable:", len(na))
