"""E2 obligations for C04: LimitTracker, from the MIR of the current apollo-parser source (z3 + cvc5)."""
import re
import time

from mir import Mir, Unsupported
from sym import Exec, BV, Bool, Struct, Ref, Unit
import smt


def find(m, name):
    c = [f for f in m.fns if f.kind == "fn" and not f.ctfe and re.fullmatch(r"limit::<impl at .*limit\.rs.*>::" + name, f.name)]
    if len(c) != 1:
        raise Unsupported("expected exactly one MIR body for LimitTracker::%s, found %d" % (name, len(c)))
    return c[0]


def run_all(mir_path, log=print):
    t0 = time.time()
    with open(mir_path) as f:
        m = Mir(f.read())
    fns = {n: find(m, n) for n in ("check_and_increment", "decrement", "new")}

    def inline(callee):
        mm = re.fullmatch(r"LimitTracker::(\w+)", callee.strip())
        return fns.get(mm.group(1)) if mm else None

    decl = ["(set-logic ALL)"] + ["(declare-const %s (_ BitVec 64))" % v for v in ("current", "high", "limit")]
    MAX = "#xffffffffffffffff"
    results = []

    def tracker_state():
        heap = {0: Struct({0: BV("current", 64), 1: BV("high", 64), 2: BV("limit", 64)}, "LimitTracker")}
        return {"_1": Ref(0), "#heap": heap}

    def obligations(fn, pre, prop_of):
        ex = Exec(m, inline=inline)
        outs = ex.run(fn, {}, [], st=tracker_state())
        rets = [o for o in outs if o.kind == "return"]
        panics = [o for o in outs if o.kind == "panic"]
        if any(o.kind == "call" for o in outs) or not rets:
            raise Unsupported("unexpected outcome in " + fn.name)
        bad = []
        for o in rets:
            t = o.st["#heap"][0]
            bad.append("(and %s (not %s))" % (o.cond(), prop_of(o.value, t.fields[0].term, t.fields[1].term, t.fields[2].term)))
        allc = [o.cond() for o in outs]
        qs = [
            ("property on every returning path", decl + ["(assert %s)" % pre, "(assert (or false %s))" % " ".join(bad)], "unsat"),
            ("no panic (arithmetic overflow) under the precondition", decl + ["(assert %s)" % pre, "(assert (or false %s))" % " ".join(o.cond() for o in panics)], "unsat"),
            ("translated paths are exhaustive", decl + ["(assert (not (or %s)))" % " ".join(allc)], "unsat"),
            ("non-vacuity: precondition satisfiable with a returning path", decl + ["(assert %s)" % pre, "(assert (or %s))" % " ".join(o.cond() for o in rets)], "sat"),
        ]
        return qs, sorted(ex.functions_used)

    inc = "(bvadd current (_ bv1 64))"
    pre_ci = "(and (bvule current high) (not (= current %s)))" % MAX

    def prop_ci(ret, c2, h2, l2):
        reached = "(bvugt %s limit)" % inc
        return ("(and (= %s %s) (= %s (ite (bvugt %s high) %s high)) (= %s (ite %s current %s)) (= %s limit))"
                % (ret.term, reached, h2, inc, inc, c2, reached, inc, l2))
    pre_d = "(not (= current (_ bv0 64)))"

    def prop_d(_ret, c2, h2, l2):
        return "(and (= %s (bvsub current (_ bv1 64))) (= %s high) (= %s limit))" % (c2, h2, l2)

    used = set()
    for label, fn, pre, prop in (("check_and_increment", fns["check_and_increment"], pre_ci, prop_ci),
                                 ("decrement", fns["decrement"], pre_d, prop_d)):
        qs, fu = obligations(fn, pre, prop)
        used.update(fu)
        for name, lines, expect in qs:
            full = "LimitTracker::%s: %s" % (label, name)
            r = smt.check(lines, get_values=("current", "high", "limit") if expect == "unsat" else (), timeout=300, name=full)
            ok = r["result"] == expect
            results.append({"name": full, "expected": expect, "got": r["result"], "ok": ok, "solver_times_s": r["times"],
                            "model": r["model"] if not ok else {}})
            log("  [E2] %-6s %s  %s" % ("ok" if ok else "FAIL", full, r["times"]))
            if not ok and expect == "sat":
                raise smt.Inconclusive("vacuous encoding: " + full)
    return {"results": results, "functions": sorted(used), "wall_s": round(time.time() - t0, 2)}


if __name__ == "__main__":
    import sys
    import json
    out = run_all(sys.argv[1])
    print(json.dumps([r for r in out["results"] if not r["ok"]], indent=1))
