"""Symbolic execution of loop-free MIR into SMT-LIB2 bit-vector terms.

Values:
  BV(term, width)          machine integer (wrapping semantics; checked ops produce an explicit overflow flag)
  Bool(term)
  Unit()
  Struct(fields: dict idx->value, name)       also tuples
  Opt(is_some: Bool, payload)                 Option<T> of a scalar payload
  Ref(cell)                                   reference to a mutable cell (Python object holding a value)
A path is (condition terms, final outcome).  switchInt on a symbolic value forks.
"""
import re

from mir import Unsupported


class BV:
    def __init__(self, term, width):
        self.term, self.width = term, width

    def __repr__(self):
        return "BV%d(%s)" % (self.width, self.term)


class Bool:
    def __init__(self, term):
        self.term = term

    def __repr__(self):
        return "Bool(%s)" % self.term


class Unit:
    pass


class Struct:
    def __init__(self, fields, name=""):
        self.fields, self.name = dict(fields), name

    def __repr__(self):
        return "Struct%s%r" % (self.name, self.fields)


class Opt:
    def __init__(self, is_some, payload):
        self.is_some, self.payload = is_some, payload


class Res:
    """Result<T, E> with scalar payloads of the same width (e.g. compare_exchange's Result<u64, u64>)"""

    def __init__(self, is_ok, payload):
        self.is_ok, self.payload = is_ok, payload


class Ref:
    """reference to a cell of the path-local heap (st['#heap'][cell]); `path` = field projections below it"""

    def __init__(self, cell, path=()):
        self.cell, self.path = cell, tuple(path)


class ConstRef:
    """reference to an immutable static (its value is known from the MIR's allocation dump)"""

    def __init__(self, value):
        self.value = value


class AtomicRef:
    """reference to a shared atomic word (identified by its static name)"""

    def __init__(self, name, width):
        self.name, self.width = name, width


def bvconst(v, w):
    return BV("(_ bv%d %d)" % (v % (1 << w), w), w)


INT_W = {"u8": 8, "i8": 8, "u16": 16, "i16": 16, "u32": 32, "i32": 32, "u64": 64, "i64": 64,
         "usize": 64, "isize": 64, "u128": 128, "i128": 128}
SIGNED = {"i8", "i16", "i32", "i64", "isize", "i128"}


def copy_val(v):
    if isinstance(v, Struct):
        return Struct({k: copy_val(x) for k, x in v.fields.items()}, v.name)
    if isinstance(v, Opt):
        return Opt(v.is_some, copy_val(v.payload))
    if isinstance(v, Res):
        return Res(v.is_ok, copy_val(v.payload))
    return v


def ite(c, a, b):
    """merge two values under condition term c"""
    if isinstance(a, BV) and isinstance(b, BV):
        return BV("(ite %s %s %s)" % (c, a.term, b.term), a.width)
    if isinstance(a, Bool) and isinstance(b, Bool):
        return Bool("(ite %s %s %s)" % (c, a.term, b.term))
    if isinstance(a, Unit) and isinstance(b, Unit):
        return a
    if isinstance(a, Struct) and isinstance(b, Struct):
        return Struct({k: ite(c, a.fields[k], b.fields[k]) for k in a.fields}, a.name)
    if isinstance(a, Opt) and isinstance(b, Opt):
        return Opt(ite(c, a.is_some, b.is_some), ite(c, a.payload, b.payload))
    if isinstance(a, Res) and isinstance(b, Res):
        return Res(ite(c, a.is_ok, b.is_ok), ite(c, a.payload, b.payload))
    raise Unsupported("cannot merge %r and %r" % (a, b))


class Path:
    def __init__(self, conds, locals_):
        self.conds = list(conds)
        self.locals = locals_


class Outcome:
    """kind in {'return','panic','atomic','call'}"""

    def __init__(self, kind, conds, **kw):
        self.kind, self.conds = kind, list(conds)
        self.__dict__.update(kw)

    def cond(self):
        if not self.conds:
            return "true"
        if len(self.conds) == 1:
            return self.conds[0]
        return "(and %s)" % " ".join(self.conds)


class Exec:
    def __init__(self, mir, consts=None, inline=None):
        self.mir = mir
        self.inline = inline          # callee text -> Fn for crate-local functions to be inlined
        self.const_cache = {}
        self.functions_used = set()
        self.consts_hint = consts or {}

    # ---------------------------------------------------------------------------------------
    def resolve_const(self, path, ty_hint=None):
        """`const parser::TAG` -> evaluate the const item's MIR body (must be closed)."""
        if path in self.const_cache:
            return self.const_cache[path]
        last = path.split("::")[-1]
        cands = [f for f in self.mir.fns if f.kind in ("const", "static") and f.name in (path, last)]
        if len(cands) != 1:
            raise Unsupported("const %s: %d candidate definitions in the MIR dump" % (path, len(cands)))
        f = cands[0]
        outs = self.run(f, {}, [])
        # a const item whose evaluation panics does not compile, so only its returning path is real
        rets = [o for o in outs if o.kind == "return"]
        if len(rets) != 1:
            raise Unsupported("const %s does not evaluate to a single value" % path)
        self.const_cache[path] = rets[0].value
        return rets[0].value

    def static_value(self, alloc, ty):
        a = self.mir.allocs.get(alloc)
        if a is None or a["bytes"] is None:
            raise Unsupported("unknown or non-plain allocation " + alloc)
        w = INT_W.get(ty)
        if w is None:
            raise Unsupported("static of type " + ty)
        return bvconst(int.from_bytes(a["bytes"][: w // 8], "little"), w)

    # ---------------------------------------------------------------------------------------
    def operand(self, s, st):
        s = s.strip()
        if s.startswith("copy ") or s.startswith("move "):
            return copy_val(self.read_place(s[5:].strip(), st))
        if s.startswith("const "):
            return self.constant(s[6:].strip())
        raise Unsupported("operand " + s)

    def constant(self, c):
        if c in ("true", "false"):
            return Bool(c)
        if c == "()":
            return Unit()
        m = re.fullmatch(r"(-?\d+)_([iu](?:8|16|32|64|128|size))", c)
        if m:
            return bvconst(int(m.group(1)), INT_W[m.group(2)])
        m = re.fullmatch(r"\{(alloc\d+): &(?:mut )?(.+)\}", c)
        if m:
            alloc, ty = m.group(1), m.group(2)
            a = self.mir.allocs.get(alloc)
            am = re.fullmatch(r"(?:std::sync::atomic::)?Atomic(?:<(\w+)>|(U64|Usize|U32))", ty)
            if am:
                w = INT_W[(am.group(1) or am.group(2).lower())]
                name = (a or {}).get("static") or alloc
                return AtomicRef(name, w)
            return ConstRef(self.static_value(alloc, ty))
        m = re.fullmatch(r"std::sync::atomic::Ordering::(\w+)", c)
        if m:
            return Unit()
        if re.fullmatch(r"[\w:<> ]+", c) and "::" in c:
            return copy_val(self.resolve_const(c))
        raise Unsupported("constant " + c)

    # places -------------------------------------------------------------------------------
    def _parse_place(self, p):
        """returns (root local, [projection...]) with projections 'deref' | int field | ('downcast', name)"""
        p = p.strip()
        proj = []
        while True:
            m = re.fullmatch(r"\((.+)\.(\d+): [^()]*(?:\([^()]*\)[^()]*)*\)", p)
            if m and self._balanced(m.group(1)):
                proj.append(int(m.group(2)))
                p = m.group(1).strip()
                continue
            m = re.fullmatch(r"\(\*(.+)\)", p)
            if m and self._balanced(m.group(1)):
                proj.append("deref")
                p = m.group(1).strip()
                continue
            m = re.fullmatch(r"\((.+) as (\w+)\)", p)
            if m and self._balanced(m.group(1)):
                proj.append(("downcast", m.group(2)))
                p = m.group(1).strip()
                continue
            break
        if not re.fullmatch(r"_\d+", p):
            raise Unsupported("place " + p)
        return p, list(reversed(proj))

    @staticmethod
    def _balanced(s):
        d = 0
        for ch in s:
            if ch == "(":
                d += 1
            elif ch == ")":
                d -= 1
                if d < 0:
                    return False
        return d == 0

    def read_place(self, p, st):
        root, proj = self._parse_place(p)
        if root not in st:
            raise Unsupported("read of unassigned local %s" % root)
        v = st[root]
        for pr in proj:
            if pr == "deref":
                if isinstance(v, ConstRef):
                    v = v.value
                    continue
                if not isinstance(v, Ref):
                    raise Unsupported("deref of non-reference")
                x = st["#heap"][v.cell]
                for k in v.path:
                    x = x.fields[k]
                v = x
            elif isinstance(pr, int):
                if isinstance(v, (Opt, Res)):   # ((_8 as Some).0), ((_5 as Ok).0)
                    v = v.payload
                elif isinstance(v, Struct):
                    v = v.fields[pr]
                else:
                    raise Unsupported("field of %r" % (v,))
            else:  # downcast
                if not isinstance(v, (Opt, Res)):
                    raise Unsupported("downcast of a value that is neither Option nor Result")
        return v

    def write_place(self, p, val, st):
        root, proj = self._parse_place(p)
        if not proj:
            st[root] = val
            return
        # navigate to the container
        if proj[0] == "deref":
            ref = st[root]
            if not isinstance(ref, Ref):
                raise Unsupported("store through non-reference")
            path = list(ref.path) + [x for x in proj[1:]]
            if not path:
                st["#heap"][ref.cell] = val
                return
            st["#heap"][ref.cell] = copy_val(st["#heap"][ref.cell])
            tgt = st["#heap"][ref.cell]
        else:
            st[root] = copy_val(st[root])
            tgt = st[root]
            path = proj
        for k in path[:-1]:
            if not isinstance(k, int):
                raise Unsupported("projection in store")
            tgt = tgt.fields[k]
        tgt.fields[path[-1]] = val

    # rvalues ------------------------------------------------------------------------------
    def rvalue(self, r, st, dest_ty, f=None):
        r = r.strip()
        m = re.fullmatch(r"(\w+)\((.*)\)", r)
        if m and m.group(1) in BINOPS:
            ops = split_top(m.group(2))
            a, b = [self.operand(x, st) for x in ops]
            signed = False
            if f is not None:
                mm = re.search(r"_\d+", ops[0])
                ty0 = f.locals.get(mm.group(0), "") if (mm and "." not in ops[0]) else ops[0].rsplit("_", 1)[-1]
                signed = ty0 in SIGNED or dest_ty in SIGNED
            if signed and m.group(1) in ("Shr", "ShrUnchecked"):
                return _shift("bvashr")(a, b, dest_ty)
            if signed and m.group(1) in ("Lt", "Le", "Gt", "Ge"):
                sop = {"Lt": "bvslt", "Le": "bvsle", "Gt": "bvsgt", "Ge": "bvsge"}[m.group(1)]
                return Bool("(%s %s %s)" % (sop, a.term, b.term))
            if signed and m.group(1) in ("Div", "Rem"):
                raise Unsupported("signed " + m.group(1))
            return BINOPS[m.group(1)](a, b, dest_ty)
        if m and m.group(1) in ("Not", "Neg"):
            a = self.operand(m.group(2), st)
            if isinstance(a, Bool):
                return Bool("(not %s)" % a.term)
            return BV("(%s %s)" % ("bvnot" if m.group(1) == "Not" else "bvneg", a.term), a.width)
        if m and m.group(1) == "discriminant":
            v = self.read_place(m.group(2), st)
            if isinstance(v, Opt):
                return BV("(ite %s (_ bv1 64) (_ bv0 64))" % v.is_some.term, 64)
            if isinstance(v, Res):
                return BV("(ite %s (_ bv0 64) (_ bv1 64))" % v.is_ok.term, 64)
            raise Unsupported("discriminant of %r" % (v,))
        m = re.fullmatch(r"&(?:mut )?(.+)", r)
        if m:
            root, proj = self._parse_place(m.group(1))
            if proj and proj[0] == "deref":      # reborrow
                ref = st[root]
                return Ref(ref.cell, list(ref.path) + proj[1:])
            raise Unsupported("address-of local " + r)
        m = re.fullmatch(r"(.+) as (\w+) \((\w+)\)", r)
        if m:
            a = self.operand(m.group(1), st)
            w = INT_W.get(m.group(2))
            if m.group(3) == "IntToInt" and isinstance(a, Bool) and w:
                return BV("(ite %s (_ bv1 %d) (_ bv0 %d))" % (a.term, w, w), w)
            if m.group(3) == "IntToInt" and isinstance(a, BV) and w:
                if w == a.width:
                    return BV(a.term, w)
                if w < a.width:
                    return BV("((_ extract %d 0) %s)" % (w - 1, a.term), w)
                src_ty = ""
                mm = re.search(r"_\d+", m.group(1))
                if f is not None and mm:
                    src_ty = f.locals.get(mm.group(0), "")
                if not src_ty:
                    src_ty = m.group(1).rsplit("_", 1)[-1]
                if src_ty in SIGNED:
                    return BV("((_ sign_extend %d) %s)" % (w - a.width, a.term), w)
                if src_ty in INT_W:
                    return BV("((_ zero_extend %d) %s)" % (w - a.width, a.term), w)
                raise Unsupported("widening cast needs signedness: " + r)
            raise Unsupported("cast " + r)
        m = re.fullmatch(r"([\w:<>, ]+?) \{ (.*) \}", r)
        if m:
            fields = {}
            for i, part in enumerate(split_top(m.group(2))):
                _fname, op = part.split(":", 1)
                fields[i] = self.operand(op, st)
            return Struct(fields, m.group(1).strip())
        if re.fullmatch(r"(?:std|core)::sync::atomic::Ordering::\w+", r):
            return Unit()       # memory orderings: sequential consistency is assumed for the single shared word
        m = re.fullmatch(r"\((.*)\)", r)
        if m and ("copy " in r or "move " in r or "const " in r):
            return Struct({i: self.operand(x, st) for i, x in enumerate(split_top(m.group(1)))}, "tuple")
        return self.operand(r, st)

    # execution ------------------------------------------------------------------------------
    def run(self, f, args, conds, start="bb0", st=None, stop_at_calls=None, visited=None):
        """Explore every path from `start`.  Returns outcomes:
             return(value) | panic(msg) | call(callee, args, dest, next_bb, st) for callees in stop_at_calls."""
        self.functions_used.add(f.name)
        if st is None:
            st = {}
            for (p, _t) in f.params:
                if p not in args:
                    raise Unsupported("missing argument " + p)
                st[p] = args[p]
        outs = []
        work = [(start, st, list(conds), frozenset())]
        while work:
            bb, st, cs, seen = work.pop()
            if bb in seen:
                raise Unsupported("local loop through %s in %s (no bound)" % (bb, f.name))
            seen = seen | {bb}
            stmts, term = f.blocks[bb]
            st = dict(st)
            if "#heap" in st:
                st["#heap"] = dict(st["#heap"])
            for s in stmts:
                self.statement(f, s, st)
            self.terminator(f, term, st, cs, seen, work, outs, stop_at_calls or ())
        return outs

    def statement(self, f, s, st):
        s = s.rstrip(";")
        if s.startswith(("StorageLive", "StorageDead", "ConstEvalCounter", "nop", "FakeRead", "PlaceMention",
                         "AscribeUserType", "Retag", "Coverage")):
            return
        m = re.fullmatch(r"(.+?) = (.+)", s)
        if not m:
            raise Unsupported("statement " + s)
        dest, r = m.group(1).strip(), m.group(2).strip()
        root, _ = self._parse_place(dest)
        val = self.rvalue(r, st, f.locals.get(root, ""), f)
        self.write_place(dest, val, st)

    def terminator(self, f, t, st, cs, seen, work, outs, stop_at_calls):
        t = t.rstrip(";")
        if t == "return":
            outs.append(Outcome("return", cs, value=st.get("_0", Unit()), st=st))
            return
        if t == "unreachable":
            outs.append(Outcome("panic", cs, msg="unreachable"))
            return
        m = re.fullmatch(r"goto -> (bb\d+)", t)
        if m:
            work.append((m.group(1), st, cs, seen))
            return
        m = re.fullmatch(r"switchInt\((.+)\) -> \[(.+)\]", t)
        if m:
            v = self.operand(m.group(1), st)
            arms = [a.strip() for a in m.group(2).split(",")]
            taken = []
            for a in arms:
                k, bb = [x.strip() for x in a.split(":")]
                if k == "otherwise":
                    c = "(and %s)" % " ".join("(not %s)" % x for x in taken) if taken else "true"
                else:
                    kv = int(k)
                    if isinstance(v, Bool):
                        c = v.term if kv != 0 else "(not %s)" % v.term
                    else:
                        c = "(= %s (_ bv%d %d))" % (v.term, kv % (1 << v.width), v.width)
                    taken.append(c)
                c2 = simplify_bool(c)
                if c2 == "false":
                    continue
                work.append((bb, st, cs + ([c2] if c2 != "true" else []), seen))
            return
        m = re.fullmatch(r"assert\((!?)(.+?), \"(.*?)\".*\) -> \[success: (bb\d+), unwind.*\]", t)
        if m:
            v = self.operand(m.group(2), st)
            good = "(not %s)" % v.term if m.group(1) else v.term
            outs.append(Outcome("panic", cs + ["(not %s)" % good], msg=m.group(3)))
            work.append((m.group(4), st, cs + [good], seen))
            return
        m = re.fullmatch(r"drop\(.+\) -> \[return: (bb\d+), unwind.*\]", t)
        if m:
            work.append((m.group(1), st, cs, seen))
            return
        m = re.fullmatch(r"(?:(.+?) = )?([^=]+?)\((.*)\) -> (?:\[return: (bb\d+), unwind.*\]|unwind.*)", t)
        if m:
            dest, callee, argtxt, nxt = m.group(1), m.group(2).strip(), m.group(3), m.group(4)
            args = [self.operand(a, st) for a in split_top(argtxt)] if argtxt.strip() else []
            if re.search(r"\bpanic\w*$|panic_fmt|unwrap_failed|expect_failed|panic_const", callee) or nxt is None:
                outs.append(Outcome("panic", cs, msg=callee + "(" + argtxt[:60] + ")"))
                return
            for pat in stop_at_calls:
                if re.search(pat, callee):
                    outs.append(Outcome("call", cs, callee=callee, args=args, argtxt=argtxt, dest=dest, next_bb=nxt, st=st, fn=f, seen=seen))
                    return
            res = self.builtin(callee, args, cs, outs)
            callee_fn = self.inline(callee) if (res is None and self.inline) else None
            if callee_fn is not None:
                st_c = {p: a for (p, _t), a in zip(callee_fn.params, args)}
                st_c["#heap"] = dict(st.get("#heap", {}))
                for o in self.run(callee_fn, {}, cs, st=st_c):
                    if o.kind == "panic":
                        outs.append(o)
                    elif o.kind == "return":
                        st2 = dict(st)
                        st2["#heap"] = dict(o.st.get("#heap", {}))
                        if dest:
                            self.write_place(dest, o.value, st2)
                        work.append((nxt, st2, list(o.conds), seen))
                    else:
                        raise Unsupported("unexpected outcome while inlining " + callee)
                return
            if res is None:
                raise Unsupported("call to " + callee)
            if dest:
                self.write_place(dest, res, st)
            work.append((nxt, st, cs, seen))
            return
        raise Unsupported("terminator " + t)

    def builtin(self, callee, args, cs, outs):
        c = re.sub(r"<[^<>]*>", "", callee)
        c = re.sub(r"<[^<>]*>", "", c)
        if re.search(r"NonZero(::)?::new$", c):
            x = args[0]
            return Opt(Bool("(not (= %s (_ bv0 %d)))" % (x.term, x.width)), x)
        if re.search(r"NonZero(::)?::new_unchecked$", c):
            return args[0]          # precondition (x != 0) is asserted by the property, not assumed here
        if re.search(r"NonZero(::)?::get$", c):
            return args[0]
        m = re.search(r"num::::(wrapping|unchecked)_(add|sub|mul)$", c) or re.search(r"num::(wrapping|unchecked)_(add|sub|mul)$", c)
        if m:
            op = {"add": "bvadd", "sub": "bvsub", "mul": "bvmul"}[m.group(2)]
            return BV("(%s %s %s)" % (op, args[0].term, args[1].term), args[0].width)
        m = re.search(r"num::(?:::)?(checked|saturating|overflowing)_(add|sub)$", c)
        if m and "impl u" in callee:
            a, b = args
            w = a.width
            if m.group(2) == "add":
                val, ov = "(bvadd %s %s)" % (a.term, b.term), "(bvult (bvadd %s %s) %s)" % (a.term, b.term, a.term)
                sat = "#x" + "f" * (w // 4)
            else:
                val, ov = "(bvsub %s %s)" % (a.term, b.term), "(bvult %s %s)" % (a.term, b.term)
                sat = "(_ bv0 %d)" % w
            if m.group(1) == "checked":
                return Opt(Bool("(not %s)" % ov), BV(val, w))
            if m.group(1) == "saturating":
                return BV("(ite %s %s %s)" % (ov, sat, val), w)
            return Struct({0: BV(val, w), 1: Bool(ov)}, "tuple")
        m = re.search(r"(?:<(?:u8|u16|u32|u64|usize|u128) as (?:std::cmp::|core::cmp::)?Ord>|cmp)::(max|min)(?:::<(?:u8|u16|u32|u64|usize|u128)>)?$", callee.strip())
        if m and len(args) == 2 and isinstance(args[0], BV):
            a, b = args
            op = "bvugt" if m.group(1) == "max" else "bvult"
            return BV("(ite (%s %s %s) %s %s)" % (op, a.term, b.term, a.term, b.term), a.width)
        m = re.search(r"num::(?:::)?saturating_(add|sub)$", c)
        if re.search(r"Result(::)?::is_ok$", c) and isinstance(args[0], Res):
            return args[0].is_ok
        if re.search(r"Result(::)?::is_err$", c) and isinstance(args[0], Res):
            return Bool("(not %s)" % args[0].is_ok.term)
        if re.search(r"Option(::)?::is_some$", c) and isinstance(args[0], Opt):
            return args[0].is_some
        if re.search(r"Option(::)?::is_none$", c) and isinstance(args[0], Opt):
            return Bool("(not %s)" % args[0].is_some.term)
        if re.search(r"Option(::)?::unwrap$", c):
            o = args[0]
            outs.append(Outcome("panic", cs + ["(not %s)" % o.is_some.term], msg="Option::unwrap on None"))
            cs.append(o.is_some.term)
            return o.payload
        return None


def split_top(s):
    out, depth, cur = [], 0, ""
    for ch in s:
        if ch in "([{<":
            depth += 1
        elif ch in ")]}>":
            depth -= 1
        if ch == "," and depth == 0:
            out.append(cur.strip())
            cur = ""
        else:
            cur += ch
    if cur.strip():
        out.append(cur.strip())
    return out


def simplify_bool(c):
    return c


def _cmp(op_u, op_s):
    def f(a, b, ty):
        if isinstance(a, Bool):
            if op_u == "=":
                return Bool("(= %s %s)" % (a.term, b.term))
            raise Unsupported("ordering on bool")
        return Bool("(%s %s %s)" % (op_u, a.term, b.term))
    return f


def _arith(op):
    def f(a, b, ty):
        return BV("(%s %s %s)" % (op, a.term, b.term), a.width)
    return f


def _ne(a, b, ty):
    return Bool("(not (= %s %s))" % (a.term, b.term))


def _shift(op):
    def f(a, b, ty):
        bt = b.term
        if b.width < a.width:
            bt = "((_ zero_extend %d) %s)" % (a.width - b.width, bt)
        elif b.width > a.width:
            bt = "((_ extract %d 0) %s)" % (a.width - 1, bt)
        return BV("(%s %s %s)" % (op, a.term, bt), a.width)
    return f


def _with_overflow(op):
    def f(a, b, ty):
        w = a.width
        signed = any(("(%s," % s) in ty.replace(" ", "") or ty.strip().startswith("(" + s) for s in SIGNED)
        if signed:
            raise Unsupported("signed checked arithmetic")
        if op == "bvadd":
            ov = "(bvult (bvadd %s %s) %s)" % (a.term, b.term, a.term)
        elif op == "bvsub":
            ov = "(bvult %s %s)" % (a.term, b.term)
        else:
            raise Unsupported("checked " + op)
        return Struct({0: BV("(%s %s %s)" % (op, a.term, b.term), w), 1: Bool(ov)}, "tuple")
    return f


BINOPS = {
    "BitAnd": _arith("bvand"), "BitOr": _arith("bvor"), "BitXor": _arith("bvxor"),
    "Add": _arith("bvadd"), "Sub": _arith("bvsub"), "AddUnchecked": _arith("bvadd"), "SubUnchecked": _arith("bvsub"),
    "Shl": _shift("bvshl"), "Shr": _shift("bvlshr"), "ShlUnchecked": _shift("bvshl"), "ShrUnchecked": _shift("bvlshr"),
    "Eq": _cmp("=", "="), "Ne": _ne,
    "Lt": _cmp("bvult", "bvslt"), "Le": _cmp("bvule", "bvsle"), "Gt": _cmp("bvugt", "bvsgt"), "Ge": _cmp("bvuge", "bvsge"),
    "AddWithOverflow": _with_overflow("bvadd"), "SubWithOverflow": _with_overflow("bvsub"),
}
