"""Run SMT-LIB2 queries on z3 and cvc5 and compare.  '(error' or disagreement = inconclusive."""
import os
import re
import subprocess
import tempfile
import time

SOLVERS = [("z3", ["/usr/bin/z3", "-smt2"]), ("cvc5", ["cvc5", "--lang", "smt2", "--produce-models"])]


class Inconclusive(Exception):
    pass


def run_one(cmd, text, timeout):
    with tempfile.NamedTemporaryFile("w", suffix=".smt2", delete=False) as f:
        f.write(text)
        path = f.name
    t0 = time.time()
    try:
        p = subprocess.run(cmd + [path], capture_output=True, text=True, timeout=timeout)
        out = p.stdout + p.stderr
    except subprocess.TimeoutExpired:
        out = "timeout"
    finally:
        os.unlink(path)
    return out, time.time() - t0


def check(lines, get_values=(), timeout=120, solvers=SOLVERS, name="query"):
    """returns dict(result='sat'|'unsat', model={name: value}, times={solver: s}).  Raises Inconclusive."""
    text = "\n".join(lines) + "\n(check-sat)\n"
    if get_values:
        text_model = text + "(get-value (%s))\n" % " ".join(get_values)
    else:
        text_model = text
    results, times, model = {}, {}, {}
    for sname, cmd in solvers:
        out, dt = run_one(cmd, text_model if sname == "z3" else text, timeout)
        times[sname] = round(dt, 3)
        if "(error" in out and not (sname == "z3" and re.search(r"^unsat", out, re.M) and "model is not available" in out):
            raise Inconclusive("%s: solver %s reported an error: %s" % (name, sname, out.strip()[:300]))
        m = re.search(r"^(sat|unsat|unknown|timeout)\s*$", out, re.M)
        if not m or m.group(1) in ("unknown", "timeout"):
            raise Inconclusive("%s: solver %s gave no verdict (%s)" % (name, sname, out.strip()[:200]))
        results[sname] = m.group(1)
        if sname == "z3" and m.group(1) == "sat" and get_values:
            for vm in re.finditer(r"\((\w+) (#x[0-9a-f]+|#b[01]+|\(- \d+\)|-?\d+|true|false)\)", out):
                v = vm.group(2)
                if v.startswith("#x"):
                    val = int(v[2:], 16)
                elif v.startswith("#b"):
                    val = int(v[2:], 2)
                elif v.startswith("(-"):
                    val = -int(v[3:-1])
                elif v in ("true", "false"):
                    val = v == "true"
                else:
                    val = int(v)
                model[vm.group(1)] = val
    if len(set(results.values())) != 1:
        raise Inconclusive("%s: solvers disagree: %r" % (name, results))
    return {"result": results[solvers[0][0]], "model": model, "times": times, "name": name}
