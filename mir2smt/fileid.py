"""E2 obligations for C31, generated from the MIR dump of the current apollo-compiler source.

  pack/tag/file_id:  for every id != 0 with bit 63 clear and both tags (bit-vectors, z3 + cvc5)
  FileId::new:       every interleaving of T threads x k calls from every non-wrapping counter value
"""
import re
import sys
import time

from mir import Mir, Unsupported
from sym import Exec, BV, Bool, Struct, Opt, ite
import interleave
import smt


RESERVED = [1, 2]      # replaced by the values read from the MIR (FileId::BUILT_IN, FileId::NONE)


def initial_counter(m):
    """value of `static INITIAL` (the counter's start/reset value), read from the MIR allocation dump"""
    for a in m.allocs.values():
        if a.get("static") == "INITIAL" and a.get("bytes"):
            return int.from_bytes(a["bytes"][:8], "little")
    f = [x for x in m.fns if x.kind == "static" and x.name.endswith("INITIAL")]
    if len(f) == 1:
        mm = re.search(r"_0 = const (\d+)_u64", f[0].text)
        if mm:
            return int(mm.group(1))
    raise Unsupported("static INITIAL not found in the MIR dump")


def reserved_terms(r):
    return " ".join("(= %s (_ bv%d 64))" % (r, v) for v in [0] + list(RESERVED))


def find_fns(m):
    def one(cands, what):
        cands = [f for f in cands if not f.ctfe and f.kind == "fn"]
        if len(cands) != 1:
            raise Unsupported("expected exactly one MIR body for %s, found %d" % (what, len(cands)))
        return cands[0]
    fns = {}
    fns["new"] = one([f for f in m.fns if re.fullmatch(r"parser::<impl at .*>::new", f.name) and not f.params
                      and f.ret == "parser::FileId"], "FileId::new")
    fns["reset"] = one([f for f in m.fns if re.fullmatch(r"parser::<impl at .*>::reset", f.name)], "FileId::reset")
    fns["pack"] = one([f for f in m.fns if re.fullmatch(r"parser::<impl at .*>::pack", f.name)], "TaggedFileId::pack")
    fns["tag"] = one([f for f in m.fns if re.fullmatch(r"parser::<impl at .*>::tag", f.name)
                      and f.params and "TaggedFileId" in f.params[0][1]], "TaggedFileId::tag")
    fns["file_id"] = one([f for f in m.fns if re.fullmatch(r"parser::<impl at .*>::file_id", f.name)
                          and f.params and f.params[0][1] == "TaggedFileId"], "TaggedFileId::file_id")
    return fns


def merged_call(ex, f, args):
    """(value, panic condition term) of calling f: the return values of all paths merged by ite."""
    outs = ex.run(f, {p: a for (p, _t), a in zip(f.params, args)}, [])
    panics = [o.cond() for o in outs if o.kind == "panic"]
    rets = [o for o in outs if o.kind == "return"]
    if any(o.kind == "call" for o in outs) or not rets:
        raise Unsupported("unexpected outcome in " + f.name)
    val = rets[-1].value
    for o in reversed(rets[:-1]):
        val = ite(o.cond(), o.value, val)
    return val, ("(or false %s)" % " ".join(panics))


def scalar(v):
    while isinstance(v, Struct):
        if len(v.fields) != 1:
            raise Unsupported("expected a one-field struct")
        v = list(v.fields.values())[0]
    return v


def pack_queries(m, fns):
    ex = Exec(m)
    idv = Struct({0: BV("id", 64)}, "FileId")
    packed, p1 = merged_call(ex, fns["pack"], [Bool("tag"), idv])
    tagv, p2 = merged_call(ex, fns["tag"], [packed])
    fid, p3 = merged_call(ex, fns["file_id"], [packed])
    TAG = scalar(ex.resolve_const("parser::TAG")).term
    decl = ["(set-logic ALL)", "(declare-const id (_ BitVec 64))", "(declare-const tag Bool)"]
    pre = "(and (not (= id (_ bv0 64))) (= (bvand id %s) (_ bv0 64)))" % TAG
    prop = ("(and (not %s) (not %s) (not %s) (= %s tag) (= %s id) (not (= %s (_ bv0 64))) (not (= %s (_ bv0 64))))"
            % (p1, p2, p3, tagv.term, scalar(fid).term, scalar(packed).term, scalar(fid).term))
    qs = []
    qs.append(("pack_roundtrip: for all id in [1,2^63), tag: tag(pack)=tag, file_id(pack)=id, both words non-zero, no panic",
               decl + ["(assert %s)" % pre, "(assert (not %s))" % prop], "unsat", ["id", "tag"]))
    qs.append(("pack_roundtrip non-vacuity: precondition and property satisfiable together",
               decl + ["(assert %s)" % pre, "(assert %s)" % prop], "sat", []))
    # injectivity
    ex2 = Exec(m)
    pa, _ = merged_call(ex2, fns["pack"], [Bool("ta"), Struct({0: BV("ia", 64)}, "FileId")])
    pb, _ = merged_call(ex2, fns["pack"], [Bool("tb"), Struct({0: BV("ib", 64)}, "FileId")])
    decl2 = ["(set-logic ALL)", "(declare-const ia (_ BitVec 64))", "(declare-const ib (_ BitVec 64))",
             "(declare-const ta Bool)", "(declare-const tb Bool)"]
    pre2 = "(and %s %s)" % (pre.replace("id", "ia"), pre.replace("id", "ib"))
    qs.append(("pack_injective: equal packed words imply equal (tag,id)",
               decl2 + ["(assert %s)" % pre2, "(assert (= %s %s))" % (scalar(pa).term, scalar(pb).term),
                        "(assert (not (and (= ta tb) (= ia ib))))"], "unsat", ["ia", "ib", "ta", "tb"]))
    # reserved constants
    built_in = [f for f in m.fns if f.kind == "const" and f.name.endswith("::BUILT_IN")]
    none = [f for f in m.fns if f.kind == "const" and f.name.endswith("::NONE") and "parser::" in f.name]
    if len(built_in) != 1 or len(none) != 1:
        raise Unsupported("BUILT_IN / NONE constants not found")
    const_new = [f for f in m.fns if re.fullmatch(r"parser::<impl at .*>::const_new", f.name)]
    consts = {}
    for nm, cf in (("BUILT_IN", built_in[0]), ("NONE", none[0])):
        t = cf.blocks["bb0"][1]
        mm = re.search(r"const_new\(const (\d+)_u64\)", t)
        if not mm:
            raise Unsupported("unexpected body of const " + nm)
        consts[nm] = int(mm.group(1))
    return qs, consts, sorted(ex.functions_used | ex2.functions_used)


def interleaving_queries(m, fns, T, k, mult=1):
    def lookup(callee):
        c = callee.strip()
        if re.fullmatch(r"parser::FileId::reset", c):
            return fns["reset"]
        return None
    sysm = interleave.System(m, fns["new"], lookup)
    sysm.explore()
    nsites = len(sysm.order)
    S = T * k * max(1, nsites) * mult
    base = sysm.emit(T, k, S)
    words = sorted(sysm.shared)
    if words != ["NEXT"]:
        raise Unsupported("expected exactly the shared word NEXT, found %r" % words)
    ex = sysm.ex
    TAG = scalar(ex.resolve_const("parser::TAG")).term
    n = T * k
    # no wrap inside the window: 3 <= NEXT and NEXT + (number of calls) stays below 2^63
    pre = ["(assert (bvuge mem_NEXT_0 (_ bv%d 64)))" % initial_counter(m),
           "(assert (bvult mem_NEXT_0 (bvsub %s (_ bv%d 64))))" % (TAG, n * nsites + 1)]
    rets = [(t, j) for t in range(T) for j in range(k)]

    def has(t, j):
        return "(> calls_%d_%d %d)" % (t, S, j)

    def r(t, j):
        return "ret_%d_%d_%d" % (t, j, S)
    bad = ["(= pc_%d_%d (- 2))" % (t, S) for t in range(T)]
    for a in range(len(rets)):
        t, j = rets[a]
        bad.append("(and %s (or %s (not (= (bvand %s %s) (_ bv0 64)))))"
                   % (has(t, j), reserved_terms(r(t, j)), r(t, j), TAG))
        for b in range(a + 1, len(rets)):
            t2, j2 = rets[b]
            bad.append("(and %s %s (= %s %s))" % (has(t, j), has(t2, j2), r(t, j), r(t2, j2)))
    getv = ["mem_NEXT_0"] + ["sched_%d" % i for i in range(S)] + [r(t, j) for t, j in rets] + \
           ["calls_%d_%d" % (t, S) for t in range(T)] + ["pc_%d_%d" % (t, S) for t in range(T)]
    qs = []
    tag = "T=%d k=%d steps=%d sites=%d" % (T, k, S, nsites)
    qs.append(("new_unique[%s]: no schedule yields a panic, a duplicate id, a reserved id (0 / BUILT_IN / NONE) or an id with bit 63" % tag,
               base + pre + ["(assert (or %s))" % " ".join(bad)], "unsat", getv))
    qs.append(("new_bound[%s]: every schedule finishes all calls within the step bound" % tag,
               base + pre + ["(assert (or %s))" % " ".join("(>= pc_%d_%d 0)" % (t, S) for t in range(T))], "unsat", getv))
    qs.append(("new_nonvacuous[%s]: some schedule completes all calls" % tag,
               base + pre + ["(assert (and %s))" % " ".join("(= calls_%d_%d %d)" % (t, S, k) for t in range(T))], "sat", []))
    for i, q in enumerate(sysm.exhaustive_queries):
        qs.append(("new_paths_exhaustive[site %d]: the translated outcomes of a step cover every local state" % i,
                   ["(set-logic ALL)"] + q, "unsat", []))
    info = {"sites": sysm.atomic_ops, "steps": S, "threads": T, "calls_per_thread": k,
            "functions": sorted(ex.functions_used), "state_vars_per_thread": sorted({n for s in sysm.order for n, _ in s.vars})}
    return qs, info


def wrap_queries(m, fns):
    """Sequential: from ANY counter value (wrapped ones included, 0 excluded) one call returns an id without bit 63,
    not 0, and leaves the counter at id+1; reserved ids 1 and 2 are returned only if the counter itself was 1 or 2."""
    def lookup(callee):
        return fns["reset"] if re.fullmatch(r"parser::FileId::reset", callee.strip()) else None
    sysm = interleave.System(m, fns["new"], lookup)
    sysm.explore()
    nsites = len(sysm.order)
    S = 2 * nsites + 1
    base = sysm.emit(1, 1, S)
    TAG = scalar(sysm.ex.resolve_const("parser::TAG")).term
    r = "ret_0_0_%d" % S
    # reachable counter values: the counter starts at 3 and every call that sees bit 63 resets it, so it can
    # exceed 2^63 only by the number of concurrently running calls; 2^32 is a generous cap
    pre = ["(assert (bvuge mem_NEXT_0 (_ bv%d 64)))" % initial_counter(m),
           "(assert (bvule mem_NEXT_0 (bvadd %s (_ bv4294967296 64))))" % TAG]
    done = "(= calls_0_%d 1)" % S
    prop = "(and %s (= (bvand %s %s) (_ bv0 64)) (not (or %s)))" % (done, r, TAG, reserved_terms(r))
    qs = [("new_wrap_sequential: from every counter value in [INITIAL, 2^63+2^32] (wrapped ones included) a single call terminates within %d steps "
           "and returns an id without bit 63 that is neither 0 nor a reserved id" % S,
           base + pre + ["(assert (not %s))" % prop], "unsat", ["mem_NEXT_0", r]),
          ("new_wrap_sequential non-vacuity (wrap branch reachable)",
           base + pre + ["(assert (not (= (bvand mem_NEXT_0 %s) (_ bv0 64))))" % TAG, "(assert %s)" % prop], "sat", [])]
    return qs


def run_all(mir_path, tier, log=print):
    t0 = time.time()
    with open(mir_path) as f:
        m = Mir(f.read())
    fns = find_fns(m)
    results = []
    cex = None
    qs, consts, used = pack_queries(m, fns)
    RESERVED[:] = sorted(set(consts.values()))
    if consts["BUILT_IN"] == consts["NONE"] or any(v == 0 or v >> 63 for v in consts.values()):
        results.append({"name": "reserved constants distinct, non-zero, no tag bit", "expected": "distinct", "got": consts, "ok": False})
        cex = cex or {"query": "reserved constants", "model": consts, "kind": "reserved_constants"}
    else:
        results.append({"name": "reserved constants (read from the MIR const bodies) are distinct, non-zero, without tag bit", "ok": True, "got": consts})
    bounds = [(2, 2)] if tier == "quick" else [(2, 2), (3, 2), (2, 3)]
    infos = []
    allq = list(qs) + wrap_queries(m, fns)
    for T, k in bounds:
        # the step bound must cover every schedule (retry loops make the number of steps data-dependent):
        # grow it until the bound-adequacy query is unsat
        for mult in (1, 2, 4):
            q2, info = interleaving_queries(m, fns, T, k, mult)
            bq = [q for q in q2 if q[0].startswith("new_bound")][0]
            r = smt.check(bq[1], timeout=600, name=bq[0])
            if r["result"] == "unsat":
                break
            log("  [E2] step bound %d too small for T=%d k=%d, growing" % (info["steps"], T, k))
        else:
            raise smt.Inconclusive("no step bound up to %d covers every schedule for T=%d k=%d" % (info["steps"], T, k))
        infos.append(info)
        allq += q2
    for name, lines, expect, getv in allq:
        r = smt.check(lines, get_values=getv if expect == "unsat" else (), timeout=600, name=name)
        ok = r["result"] == expect
        results.append({"name": name, "expected": expect, "got": r["result"], "ok": ok, "solver_times_s": r["times"]})
        log("  [E2] %-6s %s  %s" % ("ok" if ok else "FAIL", name[:110], r["times"]))
        if not ok and expect == "unsat" and (cex is None or (name.startswith("new_unique") and not cex["query"].startswith("new_unique"))):
            cex = {"query": name, "model": r["model"], "kind": name.split(":")[0].split("[")[0]}
        if not ok and expect == "sat":
            raise smt.Inconclusive("vacuous encoding: %s is unsat" % name)
    return {"results": results, "counterexample": cex, "interleaving": infos, "functions": used,
            "wall_s": round(time.time() - t0, 2)}


if __name__ == "__main__":
    out = run_all(sys.argv[1], sys.argv[2] if len(sys.argv) > 2 else "quick")
    import json
    print(json.dumps({k: v for k, v in out.items() if k != "results"}, indent=1)[:3000])
