"""Reader for rustc's `-Zunpretty=mir` text (nightly), restricted to what the translated functions use.

Anything the reader or the translator does not understand raises Unsupported: the check then ends
inconclusive (exit 2) rather than green.
"""
import re


class Unsupported(Exception):
    pass


class Fn:
    def __init__(self, header, name, params, ret):
        self.header = header
        self.name = name          # e.g. "parser::<impl at …:504:1: 504:12>::new"
        self.params = params      # [(local, type)]
        self.ret = ret
        self.locals = {}          # local -> type
        self.blocks = {}          # "bb0" -> (stmts, terminator)
        self.text = ""


_FN_RE = re.compile(r"^(?:fn|const|static) (.+?)(?:\((.*)\) -> (.+)|: (.+) =) \{$")


class _ConstMatch:
    def __init__(self, name, ty):
        self._g = {1: name, 2: None, 3: None, 4: ty}

    def group(self, i):
        return self._g[i]


def split_params(s):
    out, depth, cur = [], 0, ""
    for ch in s:
        if ch in "<([{":
            depth += 1
        elif ch in ">)]}":
            depth -= 1
        if ch == "," and depth == 0:
            out.append(cur.strip())
            cur = ""
        else:
            cur += ch
    if cur.strip():
        out.append(cur.strip())
    return out


class Mir:
    def __init__(self, text):
        self.fns = []         # in file order
        self.allocs = {}      # "alloc244" -> {"static": name or None, "bytes": bytes}
        self._parse(text)

    def _parse(self, text):
        lines = text.split("\n")
        i, n = 0, len(lines)
        ctfe_next = False
        while i < n:
            line = lines[i]
            if line.startswith("// MIR FOR CTFE"):
                ctfe_next = True
                i += 1
                continue
            m = _FN_RE.match(line)
            if m and (line.startswith("const ") or line.startswith("static ")) and m.group(2) is None:
                head = line[:-len(" = {")]
                nm, ty = head.split(" ", 1)[1].rsplit(": ", 1)
                m = _ConstMatch(nm, ty)
            if m and (line.startswith("fn ") or line.startswith("const ") or line.startswith("static ")):
                j = i + 1
                while j < n and lines[j] != "}":
                    j += 1
                body = lines[i + 1:j]
                params = []
                if m.group(2) is not None:
                    for p in split_params(m.group(2)):
                        if ":" in p:
                            a, b = p.split(":", 1)
                            params.append((a.strip(), b.strip()))
                f = Fn(line, m.group(1), params, (m.group(3) or m.group(4) or "").strip())
                f.ctfe = ctfe_next
                f.kind = line.split(" ", 1)[0]
                f.text = "\n".join(lines[i:j + 1])
                self._parse_body(f, body)
                self.fns.append(f)
                ctfe_next = False
                i = j + 1
                continue
            m = re.match(r"^(alloc\d+) \((?:static: (\w+), )?size: (\d+), align: \d+\) \{$", line)
            if m:
                j = i + 1
                bs = []
                while j < n and lines[j] != "}":
                    row = lines[j]
                    row = row.split("│")[0] if "│" in row else row
                    if "│" in lines[j]:
                        parts = lines[j].split("│")
                        row = parts[1] if len(parts) >= 3 and parts[0].strip().startswith("0x") else parts[0]
                    for tok in row.split():
                        if re.fullmatch(r"[0-9a-f]{2}", tok):
                            bs.append(int(tok, 16))
                        elif tok.startswith("╾") or "alloc" in tok:
                            bs = None
                            break
                    if bs is None:
                        break
                    j += 1
                while j < n and lines[j] != "}":
                    j += 1
                self.allocs[m.group(1)] = {"static": m.group(2), "bytes": bytes(bs) if bs is not None else None,
                                           "size": int(m.group(3))}
                i = j + 1
                continue
            i += 1

    def _parse_body(self, f, body):
        cur = None
        for raw in body:
            s = raw.strip()
            if not s or s.startswith("//") or s.startswith("debug ") or s.startswith("scope ") or s == "}":
                continue
            m = re.match(r"^let (?:mut )?(_\d+): (.+);$", s)
            if m:
                f.locals[m.group(1)] = m.group(2)
                continue
            m = re.match(r"^(bb\d+)(?: \(cleanup\))?: \{$", s)
            if m:
                cur = m.group(1)
                f.blocks[cur] = []
                continue
            if cur is not None:
                f.blocks[cur].append(s)
        for p, t in f.params:
            f.locals[p] = t
        for bb, stmts in list(f.blocks.items()):
            if not stmts:
                raise Unsupported("empty block %s in %s" % (bb, f.name))
            f.blocks[bb] = (stmts[:-1], stmts[-1])

    def find(self, suffix, impl_line_hint=None, nparams=None, ret_contains=None, ctfe=False):
        """Functions whose path ends with `suffix` (e.g. 'FileId', 'new' resolved through the impl header text)."""
        out = []
        for f in self.fns:
            if f.ctfe != ctfe:
                continue
            if not f.name.endswith(suffix):
                continue
            if nparams is not None and len(f.params) != nparams:
                continue
            if ret_contains is not None and ret_contains not in f.ret:
                continue
            out.append(f)
        return out
