"""Bounded multi-thread transition system for a MIR function whose only shared state is atomic statics.

Every atomic call in the MIR (in the function itself or in crate functions it calls, which are inlined)
is one visible step; the thread-local code between two atomic calls is executed symbolically and folded
into the step.  T threads each call the function k times; the schedule is a sequence of symbolic thread
indices; the initial value of the shared word is symbolic.  Sequential consistency is assumed.
"""
import re

from mir import Unsupported
from sym import BV, Bool, Unit, Struct, Opt, Res, AtomicRef, Ref, ConstRef, Exec, split_top

ATOMIC_RE = r"(?:^|::)Atomic(?:::<\w+>|U64|Usize|U32|U16|U8|I64|Isize|I32)?::(\w+)$"


def atomic_op(callee):
    m = re.search(ATOMIC_RE, callee)
    return m.group(1) if m else None


def flatten(prefix, v, out):
    """value -> [(name, sort, term)] in a fixed order"""
    if isinstance(v, BV):
        out.append((prefix, "(_ BitVec %d)" % v.width, v.term))
    elif isinstance(v, Bool):
        out.append((prefix, "Bool", v.term))
    elif isinstance(v, Struct):
        for k in sorted(v.fields):
            flatten("%s_%s" % (prefix, k), v.fields[k], out)
    elif isinstance(v, Opt):
        flatten(prefix + "_some", v.is_some, out)
        flatten(prefix + "_val", v.payload, out)
    elif isinstance(v, Res):
        flatten(prefix + "_ok", v.is_ok, out)
        flatten(prefix + "_val", v.payload, out)
    elif isinstance(v, (Unit, AtomicRef, ConstRef)):
        pass        # references to immutable statics are constants, not state
    else:
        raise Unsupported("cannot flatten %r" % (v,))


def rebuild(prefix, shape, mk):
    """value of the same shape whose scalar leaves are mk(name)"""
    if isinstance(shape, BV):
        return BV(mk(prefix), shape.width)
    if isinstance(shape, Bool):
        return Bool(mk(prefix))
    if isinstance(shape, Struct):
        return Struct({k: rebuild("%s_%s" % (prefix, k), shape.fields[k], mk) for k in shape.fields}, shape.name)
    if isinstance(shape, Opt):
        return Opt(rebuild(prefix + "_some", shape.is_some, mk), rebuild(prefix + "_val", shape.payload, mk))
    if isinstance(shape, Res):
        return Res(rebuild(prefix + "_ok", shape.is_ok, mk), rebuild(prefix + "_val", shape.payload, mk))
    return shape


class Frame:
    def __init__(self, fn, st, dest=None, ret_bb=None):
        self.fn, self.st, self.dest, self.ret_bb = fn, st, dest, ret_bb


def frame_vars(frames):
    out = []
    for d, f in enumerate(frames):
        short = re.sub(r"\W", "", f.fn.name.split("::")[-1])
        for loc in sorted(f.st, key=lambda x: int(x[1:])):
            flatten("f%d_%s%s" % (d, short, loc), f.st[loc], out)
    return out


def symbolic_frames(frames, mk):
    nfs = []
    for d, f in enumerate(frames):
        short = re.sub(r"\W", "", f.fn.name.split("::")[-1])
        st = {loc: rebuild("f%d_%s%s" % (d, short, loc), v, mk) for loc, v in f.st.items()}
        nfs.append(Frame(f.fn, st, f.dest, f.ret_bb))
    return nfs


class Site:
    pass


class System:
    def __init__(self, mir, entry, lookup):
        self.mir, self.entry, self.lookup = mir, entry, lookup
        self.ex = Exec(mir)
        self.sites = {}
        self.order = []
        self.shared = {}
        self.atomic_ops = []

    # run thread-local code of the innermost frame from `bb` up to the next visible event
    def advance(self, frames, conds, bb):
        events = []
        top = frames[-1]
        outs = self.ex.run(top.fn, {}, conds, start=bb, st=top.st, stop_at_calls=[r".*"])
        for o in outs:
            if o.kind == "panic":
                events.append({"kind": "panic", "msg": o.msg, "conds": o.conds})
            elif o.kind == "return":
                if len(frames) == 1:
                    events.append({"kind": "ret", "value": o.value, "conds": o.conds})
                else:
                    caller = frames[-2]
                    st2 = dict(caller.st)
                    if top.dest:
                        self.ex.write_place(top.dest, o.value, st2)
                    nf = frames[:-2] + [Frame(caller.fn, st2, caller.dest, caller.ret_bb)]
                    events += self.advance(nf, o.conds, top.ret_bb)
            elif o.kind == "call":
                nf = frames[:-1] + [Frame(top.fn, o.st, top.dest, top.ret_bb)]
                if atomic_op(o.callee):
                    events.append({"kind": "site", "frames": nf, "conds": o.conds, "callee": o.callee,
                                   "argtxt": o.argtxt, "dest": o.dest, "next_bb": o.next_bb})
                    continue
                callee_fn = self.lookup(o.callee)
                if callee_fn is not None:
                    if len(frames) > 6:
                        raise Unsupported("call depth > 6")
                    st_new = {p: a for (p, _t), a in zip(callee_fn.params, o.args)}
                    events += self.advance(nf + [Frame(callee_fn, st_new, o.dest, o.next_bb)], o.conds, "bb0")
                    continue
                cs, extra = list(o.conds), []
                res = self.ex.builtin(o.callee, o.args, cs, extra)
                if res is None:
                    raise Unsupported("call to %s: neither atomic, crate-local nor modelled" % o.callee)
                for e in extra:
                    events.append({"kind": "panic", "msg": e.msg, "conds": e.conds})
                st2 = dict(o.st)
                if o.dest:
                    self.ex.write_place(o.dest, res, st2)
                events += self.advance(frames[:-1] + [Frame(top.fn, st2, top.dest, top.ret_bb)], cs, o.next_bb)
        return events

    @staticmethod
    def key_of(ev):
        return tuple(f.fn.name for f in ev["frames"]) + (ev["callee"], ev["next_bb"])

    def apply_atomic(self, op, args, mem_of):
        ref = args[0]
        if not isinstance(ref, AtomicRef):
            raise Unsupported("atomic op on something that is not a static atomic")
        self.shared[ref.name] = ref.width
        mem = mem_of(ref.name)
        old = BV(mem, ref.width)
        a = args[1] if len(args) > 1 else None
        if op == "load":
            return old, mem, ref.name
        if op == "store":
            return Unit(), a.term, ref.name
        if op == "swap":
            return old, a.term, ref.name
        table = {"fetch_add": "bvadd", "fetch_sub": "bvsub", "fetch_or": "bvor", "fetch_and": "bvand",
                 "fetch_xor": "bvxor"}
        if op in table:
            return old, "(%s %s %s)" % (table[op], mem, a.term), ref.name
        if op in ("fetch_max", "fetch_min"):
            c = "bvugt" if op == "fetch_max" else "bvult"
            return old, "(ite (%s %s %s) %s %s)" % (c, a.term, mem, a.term, mem), ref.name
        if op in ("compare_exchange", "compare_exchange_weak"):
            # the weak form may also fail spuriously; a spurious failure only leads to a retry and is not modelled
            cur, new = args[1], args[2]
            eq = "(= %s %s)" % (mem, cur.term)
            return Res(Bool(eq), old), "(ite %s %s %s)" % (eq, new.term, mem), ref.name
        raise Unsupported("atomic operation %s is not modelled" % op)

    def explore(self):
        init = self.advance([Frame(self.entry, {})], [], "bb0")
        if len(init) != 1 or init[0]["kind"] != "site" or init[0]["conds"]:
            raise Unsupported("the function's prefix before its first atomic operation is not straight-line")
        self.init_event = init[0]
        work = [init[0]]
        rounds = 0
        while work:
            rounds += 1
            if rounds > 200:
                raise Unsupported("site exploration does not converge")
            ev = work.pop()
            key = self.key_of(ev)
            s = self.sites.get(key)
            if s is None:
                s = Site()
                s.key, s.index = key, len(self.order)
                s.frames = ev["frames"]
                self.sites[key] = s
                self.order.append(s)
                self.atomic_ops.append("%s@%s" % (atomic_op(ev["callee"]), ev["frames"][-1].fn.name.split("::")[-1]))
            else:
                # The same site reached with a different set of assigned locals: keep the locals assigned on
                # every arrival (MIR's definite-initialisation rule means nothing else can be read afterwards
                # without being re-assigned first).
                inter = []
                for fa, fb in zip(s.frames, ev["frames"]):
                    st = {k: v for k, v in fa.st.items() if k in fb.st}
                    inter.append(Frame(fa.fn, st, fa.dest, fa.ret_bb))
                if [n for n, _s, _t in frame_vars(inter)] == s.varnames:
                    continue
                s.frames = inter
            s.ev = dict(ev)
            s.ev["frames"] = s.frames
            s.vars = [(n, srt) for n, srt, _t in frame_vars(s.frames)]
            s.varnames = [n for n, _ in s.vars]
            op = atomic_op(ev["callee"])
            # successors from a fully symbolic local state: leaves are '@<name>', shared words '@MEM_<name>'
            frames = symbolic_frames(s.frames, lambda n: "@" + n)
            top = frames[-1]
            args = [self.ex.operand(a, top.st) for a in split_top(ev["argtxt"])]
            res, newmem, memname = self.apply_atomic(op, args, lambda n: "@MEM_" + n)
            st2 = dict(top.st)
            if ev["dest"]:
                self.ex.write_place(ev["dest"], res, st2)
            succ = self.advance(frames[:-1] + [Frame(top.fn, st2, top.dest, top.ret_bb)], [], ev["next_bb"])
            s.succ, s.newmem, s.memname = succ, newmem, memname
            for o in succ:
                if o["kind"] == "site":
                    work.append(o)

    # ------------------------------------------------------------------------------------------
    def emit(self, T, k, S, ret_width=64):
        """SMT-LIB declarations + transition constraints for T threads x k calls over S steps."""
        L = ["(set-logic ALL)"]
        self.exhaustive_queries = []
        A = L.append
        allvars = {}
        for s in self.order:
            for n, srt in s.vars:
                if allvars.setdefault(n, srt) != srt:
                    raise Unsupported("state variable with two sorts")
        words = sorted(self.shared)
        DONE, PANIC = "(- 1)", "(- 2)"

        def V(t, i, n):
            return "v_%d_%d_%s" % (t, i, n)

        def subst(term, t, i):
            def r(m):
                n = m.group(1)
                if n.startswith("MEM_"):
                    return "mem_%s_%d" % (n[4:], i)
                return V(t, i, n)
            return re.sub(r"@([A-Za-z0-9_]+)", r, term)

        for i in range(S + 1):
            for w in words:
                A("(declare-const mem_%s_%d (_ BitVec %d))" % (w, i, self.shared[w]))
            for t in range(T):
                A("(declare-const pc_%d_%d Int)" % (t, i))
                A("(declare-const calls_%d_%d Int)" % (t, i))
                for n, srt in sorted(allvars.items()):
                    A("(declare-const %s %s)" % (V(t, i, n), srt))
                for j in range(k):
                    A("(declare-const ret_%d_%d_%d (_ BitVec %d))" % (t, j, i, ret_width))
        for i in range(S):
            A("(declare-const sched_%d Int)" % i)
            A("(assert (and (>= sched_%d 0) (< sched_%d %d)))" % (i, i, T))
        # initial state
        init_site = self.sites[self.key_of(self.init_event)]
        init_vals = frame_vars(self.init_event["frames"])
        for t in range(T):
            A("(assert (= pc_%d_0 %d))" % (t, init_site.index))
            A("(assert (= calls_%d_0 0))" % t)
            for n, _srt, term in init_vals:
                if n in init_site.varnames:
                    A("(assert (= %s %s))" % (V(t, 0, n), term))

        def enter_site(t, i1, ev, src_t, src_i):
            """constraints that put thread t at step i1 into the site of event ev (terms over step src_i)"""
            tgt = self.sites[self.key_of(ev)]
            cs = ["(= pc_%d_%d %d)" % (t, i1, tgt.index)]
            for n, _srt, term in frame_vars(ev["frames"]):
                if n in tgt.varnames:
                    cs.append("(= %s %s)" % (V(t, i1, n), subst(term, src_t, src_i)))
            return cs

        for i in range(S):
            i1 = i + 1
            running = ["(>= pc_%d_%d 0)" % (t, i) for t in range(T)]
            # the scheduler picks a running thread whenever one exists
            pick = ["(and (= sched_%d %d) (>= pc_%d_%d 0))" % (i, t, t, i) for t in range(T)]
            A("(assert (or (not (or %s)) %s))" % (" ".join(running), " ".join(pick)))
            for t in range(T):
                keep = ["(= pc_%d_%d pc_%d_%d)" % (t, i1, t, i), "(= calls_%d_%d calls_%d_%d)" % (t, i1, t, i)]
                keep += ["(= %s %s)" % (V(t, i1, n), V(t, i, n)) for n in sorted(allvars)]
                keep += ["(= ret_%d_%d_%d ret_%d_%d_%d)" % (t, j, i1, t, j, i) for j in range(k)]
                moving = "(and (= sched_%d %d) (>= pc_%d_%d 0))" % (i, t, t, i)
                A("(assert (=> (not %s) (and %s)))" % (moving, " ".join(keep)))
                for s in self.order:
                    here = "(and %s (= pc_%d_%d %d))" % (moving, t, i, s.index)
                    # shared memory effect of this site's atomic operation
                    for w in words:
                        if w == s.memname:
                            A("(assert (=> %s (= mem_%s_%d %s)))" % (here, w, i1, subst(s.newmem, t, i)))
                        else:
                            A("(assert (=> %s (= mem_%s_%d mem_%s_%d)))" % (here, w, i1, w, i))
                    conds_all = []
                    for o in s.succ:
                        c = subst("(and true %s)" % " ".join(o["conds"]), t, i)
                        conds_all.append(c)
                        eff = []
                        same_rets = ["(= ret_%d_%d_%d ret_%d_%d_%d)" % (t, j, i1, t, j, i) for j in range(k)]
                        if o["kind"] == "panic":
                            eff = ["(= pc_%d_%d %s)" % (t, i1, PANIC), "(= calls_%d_%d calls_%d_%d)" % (t, i1, t, i)] + same_rets
                        elif o["kind"] == "site":
                            eff = enter_site(t, i1, o, t, i) + ["(= calls_%d_%d calls_%d_%d)" % (t, i1, t, i)] + same_rets
                        else:  # ret
                            leaves = []
                            flatten("r", o["value"], leaves)
                            if len(leaves) != 1:
                                raise Unsupported("return value is not a single scalar")
                            val = subst(leaves[0][2], t, i)
                            eff = ["(= calls_%d_%d (+ calls_%d_%d 1))" % (t, i1, t, i)]
                            for j in range(k):
                                eff.append("(= ret_%d_%d_%d (ite (= calls_%d_%d %d) %s ret_%d_%d_%d))" %
                                           (t, j, i1, t, i, j, val, t, j, i))
                            again = enter_site(t, i1, self.init_event, t, i)
                            eff.append("(ite (< (+ calls_%d_%d 1) %d) (and %s) (= pc_%d_%d %s))" %
                                       (t, i, k, " ".join(again), t, i1, DONE))
                        A("(assert (=> (and %s %s) (and %s)))" % (here, c, " ".join(eff)))
                    if i == 0 and t == 0:
                        # separate validity query: the outcomes of a step are exhaustive (no path was lost)
                        decls = ["(declare-const %s %s)" % (V(0, 0, n), srt) for n, srt in sorted(allvars.items())]
                        decls += ["(declare-const mem_%s_0 (_ BitVec %d))" % (w, self.shared[w]) for w in words]
                        self.exhaustive_queries.append(decls + ["(assert (not (or %s)))" % " ".join(conds_all)])
            # no thread moving (all finished): memory unchanged
            for w in words:
                A("(assert (=> (not (or %s)) (= mem_%s_%d mem_%s_%d)))" % (" ".join(running), w, i1, w, i))
        return L
