"""Glue between the property runner and engine E2 (MIR -> SMT)."""
import json
import os
import sys
import time

HERE = os.path.dirname(os.path.abspath(__file__))
sys.path.insert(0, HERE)
sys.path.insert(0, os.path.join(os.path.dirname(HERE), "lib"))

import core  # noqa: E402
from core import log, VERIF  # noqa: E402
from mir import Unsupported  # noqa: E402
import smt  # noqa: E402


def dump_mir(stage, crate):
    """-Zunpretty=mir of the staged crate (the current /repo sources), release-like flags with overflow checks."""
    out_path = os.path.join(stage.root, crate + ".mir")
    cmd = ["sh", "-c", "cargo +nightly rustc --offline --lib --target-dir '%s' -- -Zunpretty=mir "
           "-C debug-assertions=off -C overflow-checks=on > '%s'" % (os.path.join(stage.root, "target-mir"), out_path)]
    t0 = time.time()
    rc, out, dt, to = core.sh(cmd, cwd=os.path.join(stage.ws, "crates", crate), timeout=900,
                              logfile=os.path.join(stage.root, crate + ".mirdump.log"))
    if rc != 0 or not os.path.exists(out_path) or os.path.getsize(out_path) < 1000:
        raise Unsupported("MIR dump failed (rc=%s); see %s" % (rc, os.path.join(stage.root, crate + ".mirdump.log")))
    return out_path, round(time.time() - t0, 1)


REPLAY_TMPL = '''
#[cfg(test)]
mod verif_e2_replay {
    use super::*;
    use std::sync::{Arc, Barrier};

    #[test]
    fn verif_e2_replay_pack() {
        let raw: u64 = %(id)d;
        let tag: bool = %(tag)s;
        let id = FileId { id: NonZeroU64::new(raw).unwrap() };
        let p = TaggedFileId::pack(tag, id);
        assert!(p.tag() == tag, "tag lost");
        assert!(p.file_id() == id, "id lost");
    }

    #[test]
    fn verif_e2_replay_sequential() {
        NEXT.store(%(start)d, atomic::Ordering::SeqCst);
        let id = FileId::new().id.get();
        let start: u64 = %(start)d;
        let _ = start;
        assert!(id & TAG == 0 && id != 0 && id != FileId::BUILT_IN.id.get() && id != FileId::NONE.id.get(), "id {id} is reserved or carries the tag bit");
    }

    // The solver's schedule cannot be forced onto the compiled function without hooks inside it, so the
    // replay runs the same number of threads against the real FileId::new from the counterexample's start
    // value, many times, and fails as soon as it observes what the schedule predicts (duplicate / reserved id,
    // or a panic in a thread).
    #[test]
    fn verif_e2_replay_schedule() {
        let threads: usize = %(threads)d;
        let start: u64 = %(start)d;
        for round in 0..400u32 {
            NEXT.store(start, atomic::Ordering::SeqCst);
            let barrier = Arc::new(Barrier::new(threads));
            let mut hs = Vec::new();
            for _ in 0..threads {
                let b = barrier.clone();
                hs.push(std::thread::spawn(move || {
                    b.wait();
                    let mut v = Vec::with_capacity(20000);
                    for _ in 0..20000 { v.push(FileId::new().id.get()); }
                    v
                }));
            }
            let mut all: Vec<u64> = Vec::new();
            for h in hs { all.extend(h.join().expect("a thread panicked inside FileId::new")); }
            let n = all.len();
            all.sort_unstable();
            all.dedup();
            assert!(all.len() == n, "duplicate file ids handed out (round {round}): {} of {n} distinct", all.len());
            assert!(all.iter().all(|i| *i != 0 && *i != FileId::BUILT_IN.id.get() && *i != FileId::NONE.id.get() && *i & TAG == 0), "reserved or tagged id handed out");
        }
    }
}
'''


def replay_cex(run, cex):
    """returns (reproduced, path, detail)"""
    st = run.stage
    model = cex.get("model", {})
    kind = cex.get("kind", "")
    params = {"id": model.get("id", model.get("ia", 1)) or 1, "tag": "true" if model.get("tag", model.get("ta")) else "false",
              "start": model.get("mem_NEXT_0", 3), "threads": 2}
    if kind == "new_unique":
        import re
        m = re.search(r"T=(\d+)", cex["query"])
        params["threads"] = int(m.group(1)) if m else 2
        test = "verif_e2_replay_schedule"
    elif kind.startswith("new_wrap") or kind.startswith("new_bound"):
        test = "verif_e2_replay_sequential"
    elif kind.startswith("pack"):
        test = "verif_e2_replay_pack"
    else:
        return False, None, "no native replay for " + kind
    st.append("apollo-compiler", "src/parser.rs", REPLAY_TMPL % params)
    outs = []
    ok_dev = False
    for prof, extra in (("dev", []), ("release", ["--release"])):
        cmd = ["cargo", "test", "--offline", "-p", "apollo-compiler", "--lib"] + extra + [test, "--", "--test-threads", "1"]
        rc, out, dt, to = core.sh(cmd, cwd=st.ws, timeout=1800, env={"CARGO_TARGET_DIR": os.path.join(st.root, "target-replay")})
        failed = "test result: FAILED" in out
        outs.append("== %s rc=%s failed=%s (%.0fs)\n%s" % (prof, rc, failed, dt, out[-2000:]))
        if prof == "dev":
            ok_dev = failed
        if failed:
            break
    reproduced = any("failed=True" in o for o in outs)
    os.makedirs(os.path.join(VERIF, "replays"), exist_ok=True)
    path = os.path.join(VERIF, "replays", "C31-e2-%s.json" % kind)
    with open(path, "w") as f:
        json.dump({"kind": "smt", "property": "C31", "query": cex["query"], "model": model, "native_test": test,
                   "params": params, "reproduced_natively": reproduced, "native_output_tail": "\n".join(outs)[-4000:],
                   "repo_rev": st.repo_rev()}, f, indent=1)
    return reproduced, path, "native replay passed" if not reproduced else ""


def c31_pre(run):
    import fileid
    try:
        mir_path, dump_s = dump_mir(run.stage, "apollo-compiler")
        log("[C31] E2: MIR dumped in %.0fs" % dump_s)
        out = fileid.run_all(mir_path, run.tier, log=log)
    except (Unsupported, smt.Inconclusive) as e:
        run.inconclusive.append("E2 (MIR->SMT): %s" % e)
        return
    res = out["results"]
    unsat_ok = [r for r in res if r.get("expected") == "unsat" and r["ok"]]
    run.extra_results.append({
        "engine": "E2 MIR->SMT (z3 4.8.12 + cvc5 1.0.3)",
        "mir_functions_translated": out["functions"] + [f for i in out["interleaving"] for f in i["functions"]],
        "interleaving_systems": out["interleaving"],
        "queries": len(res), "nontrivial": True, "nontrivial_count": len(unsat_ok),
        "solver_s": round(sum(sum(r.get("solver_times_s", {}).values()) for r in res), 2),
        "obligations": [{k: v for k, v in r.items()} for r in res],
        "mir_dump_s": dump_s,
    })
    cex = out["counterexample"]
    if cex:
        ok, path, detail = replay_cex(run, cex)
        if ok:
            run.violations.append(("E2:" + cex.get("kind", "?"), cex["query"][:160], path))
        else:
            run.inconclusive.append("E2 counterexample for '%s' did not reproduce natively (%s); model=%s" %
                                    (cex["query"][:80], detail, json.dumps(cex.get("model"))[:300]))


def replay_saved(rep):
    """./check C31 --replay <path> for an E2 counterexample: re-run the native test on a fresh stage of the current tree."""
    import runner
    import importlib
    spec = importlib.import_module("props.c31").SPEC
    run = runner.Run(spec, "quick", 0)
    try:
        run.do_stage()
        kind = rep["query"].split(":")[0].split("[")[0]
        ok, path, _ = replay_cex(run, {"query": rep["query"], "model": rep["model"], "kind": kind})
        if ok:
            log("VIOLATION property=C31 replay=%s   (reproduced: %s)" % (path, rep["query"][:120]))
            return 1
        log("[C31] replay did not reproduce on the current tree")
        return 0
    finally:
        run.stage.cleanup()


LIMIT_REPLAY_TMPL = '''
#[cfg(test)]
mod verif_e2_replay {
    use super::*;

    #[test]
    fn verif_e2_replay_limit_tracker() {
        let (current, high, limit): (usize, usize, usize) = (%(current)d, %(high)d, %(limit)d);
        let mut t = LimitTracker { current, high, limit };
        if %(decrement)s {
            t.decrement();
            assert!(t.current == current - 1 && t.high == high && t.limit == limit);
        } else {
            let reached = t.check_and_increment();
            assert!(reached == (current + 1 > limit), "reached flag");
            assert!(t.high == std::cmp::max(high, current + 1), "high-water mark");
            assert!(t.current == if reached { current } else { current + 1 }, "balance");
            assert!(t.limit == limit);
        }
    }
}
'''


def c04_pre(run):
    """E2 for C04: LimitTracker from the MIR of apollo-parser, z3 + cvc5, full 3 x 64-bit domain."""
    import limits
    try:
        mir_path, dump_s = dump_mir(run.stage, "apollo-parser")
        log("[C04] E2: MIR dumped in %.0fs" % dump_s)
        out = limits.run_all(mir_path, log=log)
    except (Unsupported, smt.Inconclusive) as e:
        run.inconclusive.append("E2 (MIR->SMT): %s" % e)
        return
    res = out["results"]
    run.extra_results.append({
        "engine": "E2 MIR->SMT (z3 4.8.12 + cvc5 1.0.3)", "mir_functions_translated": out["functions"],
        "queries": len(res), "nontrivial": True,
        "nontrivial_count": len([r for r in res if r["expected"] == "unsat" and r["ok"]]),
        "solver_s": round(sum(sum(r.get("solver_times_s", {}).values()) for r in res), 2),
        "obligations": res, "mir_dump_s": dump_s,
    })
    bad = [r for r in res if not r["ok"] and r["expected"] == "unsat"]
    if bad:
        r0 = bad[0]
        m = r0.get("model", {})
        params = {"current": m.get("current", 0), "high": m.get("high", 0), "limit": m.get("limit", 0),
                  "decrement": "true" if "decrement" in r0["name"] else "false"}
        run.stage.append("apollo-parser", "src/limit.rs", LIMIT_REPLAY_TMPL % params)
        cmd = ["cargo", "test", "--offline", "-p", "apollo-parser", "--lib", "verif_e2_replay_limit_tracker"]
        rc, o, dt, to = core.sh(cmd, cwd=run.stage.ws, timeout=1800, env={"CARGO_TARGET_DIR": os.path.join(run.stage.root, "target-replay")})
        reproduced = "test result: FAILED" in o
        os.makedirs(os.path.join(VERIF, "replays"), exist_ok=True)
        path = os.path.join(VERIF, "replays", "C04-e2-limit_tracker.json")
        with open(path, "w") as f:
            json.dump({"kind": "smt", "property": "C04", "query": r0["name"], "model": m, "params": params,
                       "reproduced_natively": reproduced, "native_output_tail": o[-3000:], "repo_rev": run.stage.repo_rev()}, f, indent=1)
        if reproduced:
            run.violations.append(("E2:limit_tracker", r0["name"], path))
        else:
            run.inconclusive.append("E2 counterexample for '%s' did not reproduce natively; model=%s" % (r0["name"], json.dumps(m)))
