#!/bin/sh
# Offline setup: nothing to build (harnesses are compiled per run from /repo's working tree).
# Just confirm the tools the checks use are present.
set -e
cargo kani --version
cbmc --version
/usr/bin/z3 --version
cvc5 --version | head -1
rustup toolchain list | grep -q nightly
python3 -c "import json,re,subprocess; print('python ok')"
chmod +x /verif/check
