use crate::ast::Type;
use crate::parser::{FileId, TaggedFileId};
use crate::Name;
use std::num::NonZeroU64;

#[kani::proof]
fn pack_roundtrip() {
    let raw: u64 = kani::any();
    kani::assume(raw != 0 && raw < (1u64 << 63));
    let tag: bool = kani::any();
    // FileId has a private field `id` but we are in-crate (child of crate root): not accessible; use transmute
    let id: FileId = unsafe { std::mem::transmute(NonZeroU64::new(raw).unwrap()) };
    let packed = TaggedFileId::pack(tag, id);
    assert!(packed.tag() == tag);
    assert!(packed.file_id() == id);
}

fn any_name() -> Name {
    if kani::any() { Name::new_static_unchecked("A") } else { Name::new_static_unchecked("B") }
}

fn any_type(depth: u32) -> Type {
    let k: u8 = kani::any();
    if depth == 0 || k & 2 == 0 {
        if k & 1 == 0 { Type::Named(any_name()) } else { Type::NonNullNamed(any_name()) }
    } else {
        let inner = Box::new(any_type(depth - 1));
        if k & 1 == 0 { Type::List(inner) } else { Type::NonNullList(inner) }
    }
}

fn is_nn(t: &Type) -> bool { matches!(t, Type::NonNullNamed(_) | Type::NonNullList(_)) }

// spec AreTypesCompatible(variableType, locationType), clone-free
fn ref_compat(var: &Type, loc: &Type) -> bool {
    if is_nn(loc) && !is_nn(var) { return false; }
    match (var, loc) {
        (Type::Named(v) | Type::NonNullNamed(v), Type::Named(l) | Type::NonNullNamed(l)) => v.as_str() == l.as_str(),
        (Type::List(v) | Type::NonNullList(v), Type::List(l) | Type::NonNullList(l)) => ref_compat(v, l),
        _ => false,
    }
}

#[kani::proof]
#[kani::unwind(4)]
fn assignable_d1() {
    let a = any_type(1);
    let b = any_type(1);
    let r = a.is_assignable_to(&b) == ref_compat(&a, &b);
    std::mem::forget(a);
    std::mem::forget(b);
    assert!(r);
}

#[kani::proof]
#[kani::unwind(5)]
fn assignable_d2() {
    let a = any_type(2);
    let b = any_type(2);
    let r = a.is_assignable_to(&b) == ref_compat(&a, &b);
    std::mem::forget(a);
    std::mem::forget(b);
    assert!(r);
}

#[kani::proof]
#[kani::unwind(10)]
fn name_valid_syntax() {
    let bytes: [u8; 6] = kani::any();
    let len: usize = kani::any();
    kani::assume(len <= 6);
    if let Ok(s) = std::str::from_utf8(&bytes[..len]) {
        let expect = len > 0
            && (bytes[0] == b'_' || bytes[0].is_ascii_alphabetic())
            && bytes[..len].iter().all(|b| *b == b'_' || b.is_ascii_alphanumeric());
        assert!(Name::is_valid_syntax(s) == expect);
    }
}

mod schema_probe {
    use crate::collections::{IndexMap, IndexSet};
    use crate::schema::*;
    use crate::{Name, Node, Schema};

    fn rs_stub() -> ahash::RandomState { ahash::RandomState::with_seeds(1, 2, 3, 4) }

    fn n(s: &'static str) -> Name { Name::new_static_unchecked(s) }

    #[kani::proof]
    #[kani::unwind(8)]
    #[kani::stub(ahash::RandomState::new, rs_stub)]
    fn subtype_probe() {
        let mut types: IndexMap<Name, ExtendedType> = IndexMap::with_hasher(rs_stub());
        let mut imp: IndexSet<ComponentName> = IndexSet::with_hasher(rs_stub());
        let implements: bool = kani::any();
        if implements { imp.insert(ComponentName::from(&n("I"))); }
        types.insert(n("I"), ExtendedType::Interface(Node::new(InterfaceType {
            description: None, name: n("I"),
            implements_interfaces: IndexSet::with_hasher(rs_stub()),
            directives: Default::default(),
            fields: IndexMap::with_hasher(rs_stub()),
        })));
        types.insert(n("O"), ExtendedType::Object(Node::new(ObjectType {
            description: None, name: n("O"),
            implements_interfaces: imp,
            directives: Default::default(),
            fields: IndexMap::with_hasher(rs_stub()),
        })));
        let schema = Schema {
            sources: Default::default(),
            schema_definition: Node::new(SchemaDefinition {
                description: None, directives: Default::default(),
                query: None, mutation: None, subscription: None,
            }),
            directive_definitions: IndexMap::with_hasher(rs_stub()),
            types,
        };
        let r = schema.is_subtype("I", "O");
        std::mem::forget(schema);
        assert!(r == implements);
    }
}
