use crate::Parser;
use rowan::{GreenNode, GreenNodeBuilder, SyntaxKind, Checkpoint};

fn fmt_stub(_args: std::fmt::Arguments<'_>) -> String { String::new() }

// Shadow contract model of rowan's builder.
static mut DEPTH: usize = 0;       // open nodes
static mut ROOTS: usize = 0;       // finished depth-0 nodes
static mut CHILDREN: usize = 0;    // children pushed so far (for checkpoints)
static mut TEXT_LEN: usize = 0;

fn s_token<'a>(_b: &mut GreenNodeBuilder<'a>, _k: SyntaxKind, text: &str) where 'a: 'a {
    unsafe { TEXT_LEN += text.len(); CHILDREN += 1; }
}
fn s_start_node<'a>(_b: &mut GreenNodeBuilder<'a>, _k: SyntaxKind) where 'a: 'a { unsafe { DEPTH += 1; } }
fn s_finish_node<'a>(_b: &mut GreenNodeBuilder<'a>) where 'a: 'a {
    unsafe {
        assert!(DEPTH > 0, "rowan: finish_node without start_node");
        DEPTH -= 1;
        CHILDREN += 1;
        if DEPTH == 0 { ROOTS += 1; }
    }
}
fn s_checkpoint<'a>(_b: &GreenNodeBuilder<'a>) -> Checkpoint where 'a: 'a {
    unsafe { std::mem::transmute::<usize, Checkpoint>(CHILDREN) }
}
fn s_start_node_at<'a>(_b: &mut GreenNodeBuilder<'a>, cp: Checkpoint, _k: SyntaxKind) where 'a: 'a {
    let cp: usize = unsafe { std::mem::transmute(cp) };
    unsafe { assert!(cp <= CHILDREN, "rowan: checkpoint no longer valid"); DEPTH += 1; }
}
fn s_finish<'a>(_b: GreenNodeBuilder<'a>) -> GreenNode where 'a: 'a {
    unsafe {
        assert!(DEPTH == 0 && ROOTS == 1, "rowan: finish() needs exactly one finished root");
    }
    GreenNode::new(SyntaxKind(0), std::iter::empty())
}

#[kani::proof]
#[kani::unwind(4)]
#[kani::stub(alloc::fmt::format, fmt_stub)]
#[kani::stub(rowan::GreenNodeBuilder::token, s_token)]
#[kani::stub(rowan::GreenNodeBuilder::start_node, s_start_node)]
#[kani::stub(rowan::GreenNodeBuilder::finish_node, s_finish_node)]
#[kani::stub(rowan::GreenNodeBuilder::checkpoint, s_checkpoint)]
#[kani::stub(rowan::GreenNodeBuilder::start_node_at, s_start_node_at)]
#[kani::stub(rowan::GreenNodeBuilder::finish, s_finish)]
fn ptype_empty_shadow() {
    let tree = Parser::new("").parse_type();
    let n = tree.errors().len();
    std::mem::forget(tree);
    assert!(n < 10);
}

#[kani::proof]
#[kani::unwind(8)]
#[kani::stub(alloc::fmt::format, fmt_stub)]
#[kani::stub(rowan::GreenNodeBuilder::token, s_token)]
#[kani::stub(rowan::GreenNodeBuilder::start_node, s_start_node)]
#[kani::stub(rowan::GreenNodeBuilder::finish_node, s_finish_node)]
#[kani::stub(rowan::GreenNodeBuilder::checkpoint, s_checkpoint)]
#[kani::stub(rowan::GreenNodeBuilder::start_node_at, s_start_node_at)]
#[kani::stub(rowan::GreenNodeBuilder::finish, s_finish)]
fn ptype_hole() {
    let c: u8 = kani::any();
    kani::assume(c < 128);
    let buf = [b'I', b'n', b't', b' ', c];
    let s = unsafe { std::str::from_utf8_unchecked(&buf[..]) };
    let tree = Parser::new(s).parse_type();
    let n = tree.errors().len();
    std::mem::forget(tree);
    let lossless = unsafe { TEXT_LEN } == 5;
    // whole input is one type iff the hole is ignorable or '!'
    let ok = matches!(c, b' ' | b'\t' | b'\n' | b'\r' | b',' | b'!');
    // "Int a" etc: name-continue would have to be adjacent; after a space any name char starts a new token
    assert!(lossless);
    assert!(n > 0 || ok);
}
