#[cfg(kani)]
mod h {
    use apollo_parser::Parser;
    fn fmt_stub(_args: std::fmt::Arguments<'_>) -> String { String::new() }

    #[kani::proof]
    #[kani::unwind(6)]
    #[kani::stub(alloc::fmt::format, fmt_stub)]
    fn ptype1() {
        let b: u8 = kani::any();
        kani::assume(b < 128);
        let len: usize = kani::any();
        kani::assume(len <= 1);
        let buf = [b];
        let s = unsafe { std::str::from_utf8_unchecked(&buf[..len]) };
        let tl: usize = kani::any();
        let rl: usize = kani::any();
        let tree = Parser::new(s).token_limit(tl).recursion_limit(rl).parse_type();
        let n = tree.errors().len();
        std::mem::forget(tree);
        assert!(n < 10);
    }
}
