"""Source of MANIFEST.json (run ./gen_manifest.py after editing)."""

SOURCE_COMMITS = []

ENGINES = [
    {"name": "kani", "path": "/verif/lib/core.py, /verif/lib/runner.py, /verif/harness/",
     "serves_properties": [],  # filled below
     "kind_free_text": "E1: Kani 0.68 / CBMC 6.11 bounded model checking of the compiled Rust code; harness modules are "
                       "appended under cfg(kani) to a scratch copy of /repo's working tree; unwinding assertions on; "
                       "kani::cover! witnesses + must-fail twins against vacuity; counterexamples replayed natively "
                       "with `cargo kani playback` before being reported"},
    {"name": "mir2smt", "path": "/verif/mir2smt/",
     "serves_properties": ["C04", "C31"],
     "kind_free_text": "E2: nightly rustc -Zunpretty=mir dump of the staged crate -> SMT-LIB2 bit-vector terms; "
                       "queries decided by z3 and cross-checked with cvc5; FileId::new's atomic calls become the steps "
                       "of a bounded multi-thread transition system with a symbolic schedule"},
]

NOTES = (
    "Technique family: solver-based checking of the real code (Kani/CBMC over the compiled crates; MIR->SMT for "
    "FileId). Every claim is bounded; bounds, stubs and what lies outside are in evidence/<ID>.json and DESIGN.md. "
    "Exit 2 = inconclusive (timeout/OOM/build error/vacuous harness/non-reproducing counterexample) and is never success. "
    "Known findings: /verif/known_findings.json (none open; genuine defects found by the checks were repaired in /repo as "
    "`fix:` commits bdffd60, 0569fd0, 337ddb5, fab33bc, 210b5a6 and are listed there as `fixed:` entries, which suppress nothing)."
)

CHECKS = {
    "C01": {
        "engine": "kani",
        "technique": "bounded model checking (Kani/CBMC): lexer on every one-character input and limit; parser entry points only as concrete runs under a rowan contract stub",
        "text": "the lexer never panics, overflows, slices out of bounds or fails to terminate on any input of at most one character "
                "(1-4 bytes) under any token limit (compositional: first item + post-state, then the Eof step); the parser entry points "
                "have no feasible symbolic dimension (measured) and appear only as three concrete regression runs of parse_type "
                "(\"\", \" Int\", \"!\") for the repaired 'no single root node' panic.",
        "design_ref": "DESIGN.md section 4, C01",
        "note": "rowan's GreenNodeBuilder is replaced by a contract shadow in the parser runs (replayed against real rowan); inputs of "
                "two or more characters, the parser on anything but the witness inputs, stack depth and the compiler-level entry points "
                "are outside the claim.",
    },
    "C03": {
        "engine": "kani",
        "technique": "bounded model checking (Kani/CBMC) of the lexer against the lexical grammar, compositional (first item + post-state, then Eof step)",
        "text": "the six character-class predicates for every Unicode scalar value; the complete item stream of every one-character "
                "input (1-, 2-, 3- and 4-byte characters; lead byte enumerated, continuation bytes symbolic) under every token limit: "
                "kind, data, index, then Eof, via (A) first item + cursor post-state and (B) the step from any such state.",
        "design_ref": "DESIGN.md section 4, C03",
        "note": "alloc::fmt::format stubbed. Symbolic dimension = one character, or one last ASCII byte after a listed concrete prefix "
                "(4 prefixes quick, 21 thorough) compared with a reference lexer; anything else (non-ASCII second character, three free "
                "characters, longer tokens not in the prefix list) is outside and a mutation there is not detected.",
    },
    "C04": {
        "engine": "kani+mir2smt",
        "technique": "bounded model checking (Kani/CBMC) + MIR->SMT (z3, cvc5): LimitTracker on its full domain by both engines, lexer limit gate on one-character inputs with a symbolic limit",
        "text": "LimitTracker::check_and_increment/decrement/new for every (current, high, limit); nesting histories of depth <= 5 under "
                "every limit; the lexer's token-limit gate for every 1-byte input and every limit (at most `limit` items, limit error "
                "iff the unlimited stream is longer, nothing after it, high-water mark).",
        "design_ref": "DESIGN.md section 4, C04",
        "note": "the parser-level recursion/token-limit statements and the compiler's reached counters are outside the claim "
                "(multi-token parser input and DiagnosticList are out of reach).",
    },
    "C06": {
        "engine": "kani",
        "technique": "bounded model checking (Kani/CBMC) of unescape_string against the spec's StringValue semantics; validity of the body decided by the reference lexer",
        "text": "quoted strings only: for every lexically valid body of the form prefix ++ [b] (117 enumerated prefixes: every string of "
                "length <= 2 over `a \\ \" n u 0 / t space`, unicode-escape prefixes around the 1/2/3-byte and surrogate boundaries, a "
                "few longer ones; b = every ASCII SourceCharacter) unescape_string does not panic and returns the spec value.",
        "design_ref": "DESIGN.md section 4, C06",
        "note": "block strings (BlockStringValue) are outside: unescape_block_string goes through the memchr crate and symbolic-length line "
                "splitting; two or more symbolic bytes do not finish (measured); the compiler-side storage of the values is outside.",
    },
    "C09": {
        "engine": "kani",
        "technique": "bounded model checking (Kani/CBMC) of the serializer's quoted-string path; output judged by the reference lexer and the spec's StringValue semantics",
        "text": "quoted form only: for every string prefix ++ [b] (2 prefixes quick, 15 thorough; b = every byte < 0x80 incl. control "
                "characters, quote, backslash, tab, LF, CR) Value::String(..).serialize().no_indent() writes exactly one lexically valid "
                "StringValue token whose decoded value is the original string.",
        "design_ref": "DESIGN.md section 4, C09",
        "note": "'parses back' is judged by the reference lexer + spec decoding (C03/C06 tie those to the real lexer and unescape_string); the "
                "block-string form (indentation on, strings with newlines, descriptions), other nesting positions and longer strings are outside.",
    },
    "C10": {
        "engine": "kani",
        "technique": "bounded model checking (Kani/CBMC) against byte-level reference grammars",
        "text": "Name::is_valid_syntax vs [_A-Za-z][_0-9A-Za-z]* for every valid-UTF-8 string <= 6 bytes (8 thorough); every Name "
                "constructor and the serde visitors funnel through it (<= 3 bytes); IntValue/FloatValue::valid_syntax and their "
                "serde visitors vs the lexical grammar for every string <= 5/4 bytes (7/6 thorough) over a 16-character alphabet; "
                "IntValue::from(i32)/try_to_i32 round trip on the extreme values and the +-4096 edge ranges (all i32 attempted in the thorough tier).",
        "design_ref": "DESIGN.md section 4, C10",
        "note": "alloc::fmt::format stubbed; f64 conversions and type-reference print/parse are outside the claim.",
    },
    "C11": {
        "engine": "kani",
        "technique": "bounded model checking (Kani/CBMC) of the offset -> line/column conversion against a byte-level reference: symbolic offsets over listed texts, plus one symbolic text byte after listed prefixes",
        "text": "SourceFile::get_line_column for EVERY 64-bit offset (in bounds, at the end, out of bounds) on 12 listed texts (13 thorough) that contain "
                "\\n, \\r\\n, lone \\r, trailing terminators, vertical tab, form feed, U+0085, U+2028, U+2029 and 2-/3-/4-byte characters, and on "
                "prefix ++ [b] for every ASCII byte b (or every continuation byte of a 2-byte character) after 9 listed prefixes (11 thorough), every valid 2-byte UTF-8 text (thorough); "
                "get_line_column_range for every pair of offsets on 2 texts. Reference: GraphQL LineTerminator lines, Unicode-scalar-value columns.",
        "design_ref": "DESIGN.md section 4, C11",
        "note": "alloc::fmt::format stubbed; the SourceFile is built from its fields; locations attached during CST conversion, the SourceMap lookup and "
                "diagnostic/JSON rendering are outside the claim. Found and repaired: byte columns, extra line breaks, missing line after a trailing terminator (210b5a6).",
    },
    "C23": {
        "engine": "kani",
        "technique": "bounded model checking (Kani/CBMC) against a byte-level reference for the five coordinate forms",
        "text": "each of the five FromStr impls accepts exactly its form for every string <= 6..8 bytes (8..10 thorough) over a "
                "12-character alphabet; SchemaCoordinate::from_str (dispatch, variant and name components) for every string <= 3 "
                "bytes (4..5 thorough); Display(parse(s)) == s for <= 3 bytes; parse(Display(c)) == c per kind over 2 names.",
        "design_ref": "DESIGN.md section 4, C23",
        "note": "alloc::fmt::format stubbed; memchr_aligned replaced by a checked 'haystack < 16 bytes' assertion; lookup in a "
                "Schema is outside the claim (IndexMap).",
    },
    "C29": {
        "engine": "kani",
        "technique": "bounded model checking (Kani/CBMC) against the spec algorithms transcribed as reference functions",
        "text": "Type::is_assignable_to == AreTypesCompatible for every pair of type references with nesting <= 2 (3 thorough); "
                "is_variable_usage_allowed == IsVariableUsageAllowed for every shape pair with nesting <= 1 (2 on one side, thorough) x "
                "names x variable default in {absent, null, 5 non-null kinds} x location default; "
                "is_valid_implementation_field_type == IsValidImplementationFieldType for nesting <= 2 under every subtype relation on 3 names.",
        "design_ref": "DESIGN.md section 4, C29",
        "note": "Schema::is_subtype stubbed by an arbitrary relation; <Type as Clone>::clone stubbed by a bounded structural copy in the "
                "variable-usage harnesses; that validation calls these predicates at every site is outside the claim.",
    },
    "C30": {
        "engine": "kani",
        "technique": "bounded model checking (Kani/CBMC) with pointer checks on, over bounded operation histories",
        "text": "heap-backed Name: every history of k <= 3 (4 thorough) operations {clone, drop, with_location(any span), to_cloned_arc, "
                "into Arc<str>, swap} keeps the backing Arc's strong count at 1 + live names (no leak, no premature free, no dangling "
                "or double free: CBMC pointer checks), text/location read back as supplied, tag preserved; creation paths; Eq/Ord/Hash "
                "ignore locations.  Node<u32>: histories k <= 3 (5) of {clone, drop, make_mut, get_mut}: copy-on-write never changes the "
                "other handle, get_mut refuses exactly when shared; Eq/Hash ignore locations; Node<str>, same_location.",
        "design_ref": "DESIGN.md section 4, C30",
        "note": "single-threaded histories only (Kani has no thread model); std::sync::Arc and triomphe::Arc are trusted; one harness per "
                "Node instantiation (u32, u64, str).",
    },
    "C31": {
        "engine": "kani+mir2smt",
        "technique": "bounded model checking (Kani/CBMC, full 63-bit domain) + MIR->SMT (z3, cvc5) with symbolic thread schedule",
        "text": "TaggedFileId pack/tag/file_id decided for every 63-bit id and tag by SAT on the compiled code and "
                "independently by z3+cvc5 on the MIR; FileId::new decided for every interleaving of T<=3 threads x k<=2 "
                "calls from every non-wrapping counter value, with the atomic steps read from the MIR of the current source.",
        "design_ref": "DESIGN.md section 4, C31",
        "note": "Sequential consistency on the single atomic word; Kani sequentialises atomics (schedules come from E2 only); "
                "ids before the 63-bit wrap; shared-schema multi-thread workloads and lazy statics are outside the claim.",
    },
}

_S = "needs Schema/ExecutableDocument/DiagnosticList (IndexMap/HashMap + ahash): two hand-inserted types already exceed 15 GB in CBMC"
_P = "needs multi-token symbolic parser input: the lexer state machine costs ~10 min of CBMC per symbolic byte and rowan's builder does not finish even on the empty input"

NOT_APPLICABLE = {
    "C02": "the lossless property is a statement about the parser's tree; measured: one symbolic input byte, a symbolic token limit or a symbolic recursion limit each exceed 15 min in the parser even with rowan stubbed; " + _P,
    "C05": "every grammar production needs >= 3 tokens of symbolic input; " + _P,
    "C07": "needs parse_type / parse_selection_set on symbolic suffixes; measured: no symbolic dimension survives the parser (see C01/C02); " + _P,
    "C08": "parser + fmt pretty-printer + parser again; " + _P,
    "C12": _S + "; also " + _P,
    "C13": "SchemaBuilder/ExecutableDocumentBuilder over IndexMap; " + _S,
    "C14": "whole validator over Schema; " + _S + "; the named oracle (graphql-core) is not installed",
    "C15": _S,
    "C16": "validate_schema/BuiltInScalars are HashMap/IndexMap code initialised by parsing the built-in prelude; " + _S,
    "C17": _S + "; the one encodable kernel (is_variable_usage_allowed) is decided under C29",
    "C18": _S,
    "C19": _S + "; also " + _P,
    "C20": "two full validation runs; " + _S,
    "C21": "whole pipeline incl. ariadne report rendering and deep recursion; CBMC has no stack-size model; " + _S,
    "C22": "a statement about per-process random hash seeds and process boundaries; no function-level encoding, and iterating a seeded HashMap is out of reach (" + _S + ")",
    "C24": "resolver execution over Schema and JSON maps; reference implementation absent; " + _S,
    "C25": "check_selection_set takes a Valid<ExecutableDocument> (fragments in an IndexMap) and a HashMap memo; " + _S,
    "C26": "resolver trait objects, JSON maps, async core; " + _S,
    "C27": "schedules of futures: Kani models neither executors nor wake-ups, and the code is far beyond the MIR translator",
    "C28": "coerce_variable_values walks Schema types and serde_json_bytes maps; " + _S,
    "C32": "whole-program generator over arbitrary::Unstructured + Schema; " + _S,
    "C33": "whole-program generator over Schema + rand; " + _S,
}

for e in ENGINES:
    if e["name"] == "kani":
        e["serves_properties"] = sorted(CHECKS)
